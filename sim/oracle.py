"""Oracles shared by C02/C03/C04/C07: response vs reference model (DESIGN §3.2, C.2)."""
from __future__ import annotations

from graphql.type import is_non_null_type

from .model import outermost


class Violation:
    def __init__(self, prop, oracle, fingerprint, detail):
        self.prop = prop
        self.oracle = oracle
        self.fingerprint = dict(fingerprint)
        self.detail = detail

    def key(self):
        return (self.prop, self.oracle, tuple(sorted(self.fingerprint.items())))

    def cls(self):
        """Fingerprint class kept fixed during minimisation."""
        return (self.prop, self.oracle)

    def to_json(self):
        return {"property": self.prop, "oracle": self.oracle,
                "fingerprint": self.fingerprint, "detail": self.detail}

    def __repr__(self):
        return f"Violation({self.prop},{self.oracle},{self.fingerprint})"


def exact_equal(a, b, ordered=True):
    """Deep equality, type-exact on leaves; dict key order compared when ordered."""
    if isinstance(a, dict) and isinstance(b, dict):
        if ordered:
            if list(a.keys()) != list(b.keys()):
                return False
        elif set(a.keys()) != set(b.keys()):
            return False
        return all(exact_equal(a[k], b[k], ordered) for k in a)
    if isinstance(a, (list, tuple)) and isinstance(b, (list, tuple)):
        return len(a) == len(b) and all(exact_equal(x, y, ordered) for x, y in zip(a, b))
    if type(a) is not type(b):
        return False
    return a == b


def first_diff(a, b, path=(), ordered=True):
    """(path, kind) of the first difference, or None."""
    if isinstance(a, dict) and isinstance(b, dict):
        ka, kb = list(a.keys()), list(b.keys())
        if set(ka) != set(kb):
            return path, "object_keys"
        if ordered and ka != kb:
            return path, "key_order"
        for k in ka:
            d = first_diff(a[k], b[k], path + (k,), ordered)
            if d:
                return d
        return None
    if isinstance(a, list) and isinstance(b, list):
        if len(a) != len(b):
            return path, "list_length"
        for i, (x, y) in enumerate(zip(a, b)):
            d = first_diff(x, y, path + (i,), ordered)
            if d:
                return d
        return None
    if (a is None) != (b is None):
        return path, "null_vs_value"
    if type(a) is not type(b):
        return path, "leaf_type" if not isinstance(a, (dict, list)) and not isinstance(
            b, (dict, list)) else "shape"
    if a != b:
        return path, "leaf"
    return None


def value_at(data, path):
    """(found, value): walk data along path; found False when an ancestor is null/missing."""
    cur = data
    for k in path:
        if isinstance(cur, dict):
            if k not in cur:
                return False, None
            cur = cur[k]
        elif isinstance(cur, list):
            if not isinstance(k, int) or k >= len(cur):
                return False, None
            cur = cur[k]
        else:
            return False, None
    return True, cur


def null_on_path(data, path):
    """True when data is null at the path or at one of its ancestors."""
    cur = data
    if cur is None:
        return True
    for k in path:
        if isinstance(cur, dict):
            if k not in cur:
                return False
            cur = cur[k]
        elif isinstance(cur, list):
            if not isinstance(k, int) or k >= len(cur):
                return False
            cur = cur[k]
        else:
            return False
        if cur is None:
            return True
    return False


def match_error(err, mres):
    """The ErrRec a reported (formatted) error is attributable to, or None."""
    path = tuple(err.get("path") or ())
    msg = err.get("message", "")
    for rec in mres.errors:
        if rec.path == path:
            if rec.msg is None or rec.msg in msg:
                return rec
    return None


def check_response(prop, formatted, mres, propagate=None, ordered=True, who="async"):
    """Oracles 1-3 of C03 (also used by C02/C07): data, nulled positions, well-formedness."""
    out = []
    data = formatted.get("data")
    errors = formatted.get("errors") or []
    d = first_diff(data, mres.data, (), ordered)
    if d is not None:
        out.append(Violation(prop, "data_mismatch", {"kind": d[1], "who": who},
                             {"path": list(d[0]), "observed": data, "expected": mres.data}))
    unattributable = []
    reported_null = set()
    for e in errors:
        rec = match_error(e, mres)
        if rec is None:
            unattributable.append(e)
            continue
        reported_null.add(mres.nullpos(rec.path))
    if unattributable:
        out.append(Violation(prop, "unattributable_error", {"who": who},
                             {"errors": unattributable,
                              "expected_any_of": [repr(r) for r in mres.errors]}))
    else:
        got = outermost(reported_null)
        exp = mres.expected_nulled()
        if got != exp:
            out.append(Violation(prop, "nulled_positions", {"who": who},
                                 {"observed": sorted(map(repr, got)),
                                  "expected": sorted(map(repr, exp)), "errors": errors}))
    out.extend(check_wellformed(prop, data, errors, mres, who))
    return out


def check_wellformed(prop, data, errors, mres, who):
    out = []
    # every error path ends at or below a null in data
    for e in errors:
        p = tuple(e.get("path") or ())
        if not null_on_path(data, p):
            out.append(Violation(prop, "malformed_response",
                                 {"clause": "error_not_under_null", "who": who},
                                 {"error": e, "data": data}))
            break
    if data is None and not errors:
        out.append(Violation(prop, "malformed_response",
                             {"clause": "root_null_without_error", "who": who}, {}))
    if mres.propagate and data is not None:
        bad = _null_at_nonnull(data, (), mres.pos_type)
        if bad is not None:
            out.append(Violation(prop, "malformed_response",
                                 {"clause": "null_at_non_null", "who": who},
                                 {"path": list(bad), "data": data}))
    return out


def _null_at_nonnull(value, path, pos_type):
    if value is None:
        t = pos_type.get(path)
        if t is not None and is_non_null_type(t):
            return path
        return None
    if isinstance(value, dict):
        for k, v in value.items():
            r = _null_at_nonnull(v, path + (k,), pos_type)
            if r is not None:
                return r
    elif isinstance(value, list):
        for i, v in enumerate(value):
            r = _null_at_nonnull(v, path + (i,), pos_type)
            if r is not None:
                return r
    return None


def check_invocations(prop, req, mres, data, who="async", exact_present=True):
    """Exactly-once, argument values, unplanned positions."""
    out = []
    for path, n in req.invocations.items():
        if n > 1:
            out.append(Violation(prop, "double_invocation", {"who": who},
                                 {"path": list(path), "count": n}))
            break
    for path in getattr(mres, "no_invoke", ()):
        if req.invocations.get(path):
            out.append(Violation(prop, "invoked_despite_argument_error", {"who": who},
                                 {"path": list(path), "args": repr(req.args_seen.get(path))}))
            break
    if req.unplanned:
        out.append(Violation(prop, "unplanned_position", {"who": who, "what": req.unplanned[0][0]},
                             {"positions": [list(map(str, u)) for u in req.unplanned[:5]]}))
    for path, seen in req.args_seen.items():
        exp = mres.args_at.get(path)
        if exp is None:
            continue
        for got in seen:
            if not exact_equal(got, exp, ordered=False):
                out.append(Violation(prop, "args_mismatch", {"who": who},
                                     {"path": list(path), "observed": repr(got),
                                      "expected": repr(exp)}))
                return out
    if exact_present and data is not None:
        for path in mres.order:
            found, parent = value_at(data, path[:-1])
            if found and isinstance(parent, dict) and path[-1] in parent:
                if req.invocations.get(path, 0) != 1:
                    out.append(Violation(prop, "missing_invocation", {"who": who},
                                         {"path": list(path),
                                          "count": req.invocations.get(path, 0)}))
                    break
    return out
