"""Incremental delivery oracles: assembly (C04, Appendix C.3) and protocol monitor (C05, C.4).

Written from the response format only; imports nothing from graphql.execution.
"""
from __future__ import annotations

import copy

from .model import outermost
from .oracle import Violation, first_diff, match_error


class ProtocolError(Exception):
    def __init__(self, rule, what, detail=None):
        super().__init__(what)
        self.rule = rule
        self.what = what
        self.detail = detail or {}


def _walk(data, path):
    cur = data
    for k in path:
        if isinstance(cur, dict):
            if k not in cur:
                return False, None
            cur = cur[k]
        elif isinstance(cur, list):
            if not isinstance(k, int) or not 0 <= k < len(cur):
                return False, None
            cur = cur[k]
        else:
            return False, None
    return True, cur


def deep_merge(dst, src, path=()):
    """dict-dict recursively, list-list element-wise; returns list of conflicts."""
    conflicts = []
    for k, v in src.items():
        if k in dst and isinstance(dst[k], dict) and isinstance(v, dict):
            conflicts += deep_merge(dst[k], v, path + (k,))
        elif k in dst and isinstance(dst[k], list) and isinstance(v, list):
            conflicts += _merge_list(dst[k], v, path + (k,))
        elif k in dst:
            if dst[k] != v or type(dst[k]) is not type(v):
                conflicts.append(path + (k,))
        else:
            dst[k] = copy.deepcopy(v)
    return conflicts


def _merge_list(dst, src, path):
    conflicts = []
    if len(dst) != len(src):
        conflicts.append(path)
        return conflicts
    for i, (a, b) in enumerate(zip(dst, src)):
        if isinstance(a, dict) and isinstance(b, dict):
            conflicts += deep_merge(a, b, path + (i,))
        elif isinstance(a, list) and isinstance(b, list):
            conflicts += _merge_list(a, b, path + (i,))
        elif a != b or type(a) is not type(b):
            conflicts.append(path + (i,))
    return conflicts


class Monitor:
    """Protocol monitor fed one payload at a time; also assembles the data."""

    def __init__(self, labels_parent=None, lenient=False):
        self.lenient = lenient  # record protocol errors and keep assembling (C04)
        self.protocol_errors = []
        self.seen_ids = set()
        self.pending = {}  # id -> pending entry
        self.done = {}  # id -> errors or None
        self.failed = {}  # id -> pending entry (completed with errors)
        self.ended = False
        self.data = None
        self.errors = []  # (error dict, where)
        self.n_payloads = 0
        self.labels_parent = labels_parent or {}
        self.stream_ids = set()
        self.defer_ids = set()
        self.merge_conflicts = []
        self.nesting_checked = 0
        self.nesting_skipped = 0
        self.features = set()
        self.stash = []  # (target path, incremental entry) waiting for its target to exist

    # -- rule helpers ---------------------------------------------------------------------
    def _err(self, rule, what, detail=None):
        pe = ProtocolError(rule, what, detail)
        if not self.lenient:
            raise pe
        self.protocol_errors.append(pe)

    def _apply_stash(self):
        """Entries whose target did not exist when they arrived (recorded as a rule-3 deviation)
        are applied as soon as a later entry has created it, so that one deviation does not
        make everything beneath it look undeliverable as well."""
        progress = True
        while progress and self.stash:
            progress = False
            for k, (path, inc) in enumerate(self.stash):
                ok, target = _walk(self.data, path)
                if "items" in inc:
                    if ok and isinstance(target, list):
                        target.extend(copy.deepcopy(inc["items"]))
                        del self.stash[k]
                        progress = True
                        break
                elif ok and isinstance(target, dict):
                    conf = deep_merge(target, inc["data"], tuple(path))
                    if conf:
                        self.merge_conflicts.append(conf[0])
                    del self.stash[k]
                    progress = True
                    break

    def _announce(self, entries):
        for pe in entries:
            i = pe["id"]
            if i in self.seen_ids:
                self._err(1, "id_reused_or_announced_twice", {"id": i})
                continue
            self.seen_ids.add(i)
            self.pending[i] = pe

    def _check_nesting(self):
        lp = self.labels_parent
        pend = list(self.pending.values())
        for x in pend:
            lab = x.get("label")
            if lab is None or lab not in lp:
                self.nesting_skipped += 1
                continue
            parent = lp[lab]
            if parent is None:
                self.nesting_checked += 1
                continue
            if parent == "?":
                self.nesting_skipped += 1
                continue
            self.nesting_checked += 1
            xp = list(x["path"])
            for y in pend:
                if y is x or y.get("label") != parent:
                    continue
                yp = list(y["path"])
                if xp[: len(yp)] == yp:
                    self._err(5, "nested_announced_while_parent_pending",
                              {"child": x, "parent": y})
                    return

    def on_initial(self, payload):
        self.n_payloads += 1
        self.data = copy.deepcopy(payload.get("data"))
        for e in payload.get("errors") or ():
            self.errors.append((e, "initial"))
        if "hasNext" not in payload:
            self._err(7, "initial_without_hasNext")
        self._announce(payload.get("pending") or ())
        self._check_nesting()
        if not payload.get("hasNext"):
            if self.pending:
                self._err(4, "hasNext_false_with_pending", {"pending": list(self.pending)})
            self.ended = True
        elif not self.pending:
            # hasNext true with nothing pending is legal only transiently; nothing to check
            pass

    def on_subsequent(self, payload):
        if self.ended:
            self._err(7, "payload_after_hasNext_false")
        self.n_payloads += 1
        self._announce(payload.get("pending") or ())
        entries = list(payload.get("incremental") or ())
        postponed = []
        while entries or postponed:
            if not entries:
                # second chance for entries whose target another entry of this payload created
                entries, postponed = postponed, None
            inc = entries.pop(0)
            i = inc["id"]
            if postponed is not None and "items" not in inc and i in self.pending:
                base_ = list(self.pending[i]["path"]) + list(inc.get("subPath") or ())
                ok_, target_ = _walk(self.data, base_)
                if not ok_ or not isinstance(target_, dict):
                    postponed.append(inc)
                    continue
            elif postponed is None and "items" not in inc and i in self.pending:
                base_ = list(self.pending[i]["path"]) + list(inc.get("subPath") or ())
                ok_, target_ = _walk(self.data, base_)
                if ok_ and isinstance(target_, dict):
                    self._err(3, "defer_target_created_later_in_same_payload",
                              {"id": i, "path": base_})
            if postponed is None and not entries:
                postponed = []
            pe = self.pending.get(i)
            if pe is None:
                what = ("incremental_for_completed_id" if i in self.done
                        else "incremental_for_never_announced_id")
                self._err(2, what, {"id": i})
                continue
            base = list(pe["path"])
            if "items" in inc:
                self.stream_ids.add(i)
                ok, target = _walk(self.data, base)
                if not ok or not isinstance(target, list):
                    self._err(3, "stream_target_not_a_list", {"id": i, "path": base})
                    self.stash.append((base, inc))  # applied when a later payload creates it
                    continue
                if inc.get("subPath"):
                    self.features.add("stream_subpath")
                target.extend(copy.deepcopy(inc["items"]))
                self.features.add("stream_items")
            else:
                self.defer_ids.add(i)
                sub = list(inc.get("subPath") or ())
                if sub:
                    self.features.add("subpath_nonempty")
                ok, target = _walk(self.data, base + sub)
                if not ok or not isinstance(target, dict):
                    self._err(3, "defer_target_not_an_object", {"id": i, "path": base + sub})
                    if isinstance(inc.get("data"), dict):
                        self.stash.append((base + sub, inc))
                    continue
                if not isinstance(inc.get("data"), dict):
                    self._err(3, "defer_data_not_an_object", {"id": i})
                    continue
                conf = deep_merge(target, inc["data"], tuple(base + sub))
                if conf:
                    self.merge_conflicts.append(conf[0])
                self.features.add("defer_data")
            for e in inc.get("errors") or ():
                self.errors.append((e, "incremental:" + i))
        self._apply_stash()
        for c in payload.get("completed") or ():
            i = c["id"]
            pe = self.pending.pop(i, None)
            if pe is None:
                what = ("completed_twice" if i in self.done else "completed_for_never_announced_id")
                if c.get("errors"):
                    what += "_with_errors"
                self._err(4, what, {"id": i, "entry": c})
                continue
            errs = c.get("errors")
            self.done[i] = errs
            if errs:
                self.failed[i] = pe
                self.features.add("completed_with_errors")
                for e in errs:
                    self.errors.append((e, "completed:" + i))
        self._check_nesting()
        if "hasNext" not in payload:
            self._err(7, "payload_without_hasNext")
        if not payload.get("hasNext"):
            if self.pending:
                self._err(4, "hasNext_false_with_pending", {"pending": list(self.pending)})
            self.ended = True
        else:
            if not (payload.get("pending") or payload.get("incremental") or payload.get("completed")):
                self.features.add("empty_payload")

    def on_end(self, consumer_stopped=False):
        """StopAsyncIteration reached."""
        if not self.ended and not consumer_stopped:
            self._err(7, "stream_ended_without_hasNext_false", {"pending": list(self.pending)})


# --- C04 comparison -----------------------------------------------------------------------------


def _is_prefix(p, q):
    return len(p) <= len(q) and tuple(q[: len(p)]) == tuple(p)


class Refine:
    def __init__(self, mon, mres0, mres_prop, initial_counts=None):
        self.mon = mon
        self.r0 = mres0
        self.rp = mres_prop  # result in the op's own propagation mode (for nullpos chains)
        self.failed_paths = [tuple(pe["path"]) for pe in mon.failed.values()]
        self.errors = [e for e, _w in mon.errors]
        self.nullposes = set()
        for e in self.errors:
            rec = match_error(e, mres0)
            if rec is not None:
                self.nullposes.add(self.rp.nullpos(rec.path))
        self.problem = None

    def fail(self, clause, pos, **kw):
        if self.problem is None:
            self.problem = (clause, list(pos), kw)

    def failed_prefix(self, pos):
        return any(_is_prefix(fp, pos) for fp in self.failed_paths)

    def check(self, a, r, pos=()):
        if self.problem is not None:
            return
        if a is None:
            if r is not None:
                if pos not in self.nullposes and not (pos == () and None in self.nullposes):
                    self.fail("null_without_error", pos)
            return
        if r is None:
            partial = getattr(self.r0, "partial", {}).get(pos)
            if (isinstance(a, list) and partial is not None
                    and any(fp == tuple(pos) for fp in self.failed_paths)):
                # a streamed list whose source failed: the items sent before the failure stay
                if len(a) > len(partial):
                    self.fail("stream_items_beyond_source_failure", pos)
                    return
                for i in range(len(a)):
                    self.check(a[i], partial[i], pos + (i,))
                return
            self.fail("value_where_reference_is_null", pos)
            return
        if isinstance(a, dict) and isinstance(r, dict):
            for k in a:
                if k not in r:
                    self.fail("extra_key", pos + (k,))
                    return
            for k in r:
                if k not in a:
                    if not self.failed_prefix(pos):
                        self.fail("missing_key_without_failed_fragment", pos + (k,))
                        return
            for k in a:
                self.check(a[k], r[k], pos + (k,))
            return
        if isinstance(a, list) and isinstance(r, list):
            if len(a) > len(r):
                self.fail("list_longer_than_reference", pos)
                return
            if len(a) < len(r) and not self.failed_prefix(pos):
                self.fail("list_shorter_without_failed_stream", pos)
                return
            for i in range(len(a)):
                self.check(a[i], r[i], pos + (i,))
            return
        if isinstance(a, (dict, list)) or isinstance(r, (dict, list)):
            self.fail("shape", pos)
            return
        if type(a) is not type(r) or a != r:
            self.fail("leaf", pos)


def check_assembled(prop, mon, rs, early, who="incremental"):
    """C04 oracle over a finished run: rs.result (own mode) and rs.result0 (no propagation)."""
    out = []
    R, R0 = rs.result, rs.result0
    A = mon.data
    errors = [e for e, _w in mon.errors]
    fp = {"early": early}
    if mon.merge_conflicts:
        out.append(Violation(prop, "assembled_mismatch", dict(fp, clause="merge_conflict"),
                             {"path": list(mon.merge_conflicts[0])}))
    # attribution of every collected error
    unattributable = [e for e in errors if match_error(e, R0) is None]
    if unattributable:
        out.append(Violation(prop, "unattributable_error", fp,
                             {"errors": unattributable[:3],
                              "expected_any_of": [repr(r) for r in R0.errors][:20]}))
        return out
    if not R.errors:
        d = first_diff(A, R.data, (), ordered=False)
        if d is not None or errors or mon.failed:
            out.append(Violation(prop, "assembled_mismatch", dict(fp, clause="error_free",
                                 kind=d[1] if d else "unexpected_errors"),
                                 {"path": list(d[0]) if d else None, "assembled": A,
                                  "expected": R.data, "errors": errors[:3]}))
        return out
    if not R.propagate and not mon.failed:
        d = first_diff(A, R0.data, (), ordered=False)
        if d is not None:
            out.append(Violation(prop, "assembled_mismatch", dict(fp, clause="non_propagating",
                                 kind=d[1]), {"path": list(d[0]), "assembled": A,
                                              "expected": R0.data}))
            return out
        got = outermost({tuple(match_error(e, R0).path) for e in errors})
        exp = outermost({tuple(r.path) for r in R0.errors})
        if got != exp:
            out.append(Violation(prop, "assembled_mismatch",
                                 dict(fp, clause="non_propagating_errors"),
                                 {"observed": sorted(map(repr, got)),
                                  "expected": sorted(map(repr, exp))}))
        return out
    # refinement
    ref = Refine(mon, R0, R)
    ref.check(A, R0.data)
    if ref.problem is not None:
        clause, pos, kw = ref.problem
        out.append(Violation(prop, "assembled_mismatch", dict(fp, clause="refinement:" + clause),
                             {"path": pos, "assembled": A, "reference_no_propagation": R0.data,
                              "errors": errors[:5], "failed_ids": list(mon.failed.values())}))
    # spurious withholding: a failed id must carry an error that, under propagating semantics,
    # climbs to a position this fragment / stream did not deliver itself (root, or something
    # already present in the assembled data), or be a failure of the stream's own source
    for i, pe in mon.failed.items():
        errs = mon.done[i] or []
        gpath = tuple(pe["path"])
        ok = False
        for e in errs:
            rec = match_error(e, R0)
            if rec is None:
                continue
            np_ = R.nullpos(rec.path)
            if rec.kind == "src" and tuple(rec.path) == gpath:
                ok = True
            elif np_ is None:
                ok = True
            elif np_ != "?" and R.propagate:
                found, val = _walk(A, np_)
                if found and val is not None:
                    ok = True
                elif not found and any(
                        j != i and _is_prefix(tuple(pj["path"]), tuple(np_))
                        for j, pj in mon.failed.items()):
                    # the position to be nulled was never delivered at all: the object there
                    # is shared with another fragment enclosing it that failed too (the shared
                    # execution group that creates the object is withheld with both of them)
                    ok = True
        if not ok:
            out.append(Violation(prop, "spurious_withholding",
                                 dict(fp, node="stream" if i in mon.stream_ids else "fragment"),
                                 {"id": i, "pending": pe, "errors": errs}))
            break
    return out
