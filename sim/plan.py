"""Delivery/fault plan: drawn from the plan tape by the model's walk, looked up
by the harness resolvers (DESIGN §3.1 'Plan')."""
from __future__ import annotations

from graphql.type import get_named_type, is_leaf_type, is_list_type, is_non_null_type

EXC_KINDS = (
    "RuntimeError", "ValueError", "KeyError", "EmptyStr", "GraphQLError",
    "GraphQLErrorOwnPath", "TypeError", "MemoryError", "RecursionError",
    "StopIteration", "TimeoutError", "LookupError", "SharedGraphQLError",
)


class FieldPlan:
    __slots__ = ("delivery", "fault", "exc", "msg", "k")

    def __init__(self, delivery="sync", fault=None, exc=0, msg=None, k=1):
        self.delivery = delivery
        self.fault = fault
        self.exc = exc
        self.msg = msg
        self.k = k

    def __repr__(self):
        return f"F({self.delivery}{'/' + self.fault if self.fault else ''})"


class ItemPlan(FieldPlan):
    def __repr__(self):
        return f"I({self.delivery}{'/' + self.fault if self.fault else ''})"


class ListPlan:
    __slots__ = ("kind", "fail_after", "exc", "msg", "anext", "close", "has_aclose")

    def __init__(self):
        self.kind = "list"
        self.fail_after = None
        self.exc = 0
        self.msg = None
        self.anext = ()  # per pull: True = awaits an external
        self.close = "fast"  # fast | slow | raises
        self.has_aclose = True

    def __repr__(self):
        return f"L({self.kind}{'/fail@%d' % self.fail_after if self.fail_after is not None else ''})"


class AbsPlan:
    __slots__ = ("delivery", "fault", "exc", "msg")

    def __init__(self, delivery="sync", fault=None, exc=0, msg=None):
        self.delivery = delivery
        self.fault = fault
        self.exc = exc
        self.msg = msg

    def __repr__(self):
        return f"T({self.delivery}{'/' + self.fault if self.fault else ''})"


class PlanConfig:
    """Per-run swarm knobs (all drawn from the plan tape)."""

    def __init__(self, tape, allow_hang=False, allow_async=True, focus=None):
        self.async_num = (0, 2, 4, 6)[tape.weighted((1, 3, 3, 2), "p_async")] if allow_async else 0
        self.fault_num = (0, 1, 2, 4)[tape.weighted((2, 3, 3, 2), "p_fault")]
        self.src_fault_num = (0, 2, 5)[tape.weighted((3, 2, 1), "p_src")]
        self.iter_num = (0, 3, 6)[tape.weighted((2, 3, 2), "p_iter")]
        self.hang_num = (0, 1, 3)[tape.weighted((2, 2, 1), "p_hang")] if allow_hang else 0
        self.slow_close_num = (0, 3)[tape.draw(2, "p_slowclose")]
        self.allow_async = allow_async
        self.focus = focus
        self.slowc_num = (0, 2, 4)[tape.weighted((2, 2, 1), "p_slowc")] if allow_async else 0
        if focus == "abortstream":
            # lists mostly come from asynchronous sources with slow aclose(); streams fail often
            self.async_num = 5
            self.iter_num = 7
            self.slow_close_num = 5
            self.src_fault_num = 3
            self.slowc_num = 4
        if focus == "streamfail":
            # streams over asynchronous sources whose awaitable items fail and cancel slowly
            self.async_num = 6
            self.iter_num = 6
            self.slowc_num = 5
            self.fault_num = 5
            self.src_fault_num = 2
        if focus == "nullroot":
            # non-null positions fail: late (asynchronously) at the root, so that the whole
            # response is nulled after deferred work was started early, and synchronously below
            # it, so that groups fail while their streamed lists are still being completed
            self.async_num = 6
            self.iter_num = 6
            self.fault_num = 5
            self.src_fault_num = 0
        if focus == "background":
            # many synchronous failures next to asynchronous siblings: chains of work that the
            # executor settles in the background (what the async_work_finished hook waits for)
            self.async_num = 5
            self.fault_num = 5
            self.src_fault_num = 0
        if focus == "seriality":
            # every position asynchronous, failures only as raising awaitables, slow cancellation
            # common, no source failures: subtrees cannot orphan work (strict seriality applies)
            self.async_num = 8
            self.fault_num = 8
            self.src_fault_num = 0
            # lists over (async) iterators too: a cancellation landing in the middle of an
            # iteration must take the awaitable items already collected with it
            self.iter_num = 4
            self.slowc_num = 5


class Planner:
    def __init__(self, tape, cfg, mutation=False):
        self.t = tape
        self.cfg = cfg
        self.fields = {}
        self.items = {}
        self.lists = {}
        self.abstr = {}
        self.istypes = {}
        self.nfault = 0
        self.force_sync = False
        self.fault_kinds = {}
        self.n_async = 0

    def _msg(self, exc=None):
        self.nfault += 1
        if exc is not None and EXC_KINDS[exc] in ("EmptyStr", "SharedGraphQLError"):
            # str(exc) is empty / one exception *instance* raised at every such position of
            # the scenario (a module-level NOT_FOUND): attributable by position only
            return None
        return f"F{self.nfault}"

    def _count(self, kind):
        self.fault_kinds[kind] = self.fault_kinds.get(kind, 0) + 1

    # --- draws (model walk) ----------------------------------------------------------
    def field(self, path, t):
        fp = self.fields.get(path)
        if fp is not None:
            return fp
        tp = self.t
        cfg = self.cfg
        fp = FieldPlan()
        if tp.draw(8, "f_async") < cfg.async_num:
            fp.delivery = ("future", "coro1", "coro2", "coro0", "settled")[tp.draw(5, "f_kind")]
            if tp.draw(8, "f_slowc") < cfg.slowc_num:
                fp.delivery = "slowc"  # catches cancellation, awaits a cleanup external, re-raises
            self.n_async += 1
        if (tp.draw(24, "f_fault") < cfg.fault_num
                and (cfg.focus not in ("seriality", "nullroot") or is_non_null_type(t))):
            # (seriality focus: only failures that propagate, i.e. on non-null positions)
            inner = t.of_type if is_non_null_type(t) else t
            kinds = ["raise", "ret_exc", "null", "raise"]
            if is_list_type(inner):
                kinds.append("not_iterable")
            elif is_leaf_type(inner):
                kinds.append("bad_leaf")
            fp.fault = kinds[tp.draw(len(kinds), "f_fk")]
            if cfg.focus == "seriality":
                fp.fault = "raise"
            if cfg.focus == "background":
                fp.fault = "raise"
                fp.delivery = "sync"
            if cfg.focus == "nullroot":
                fp.fault = "raise"
                fp.delivery = "future" if len(path) <= 1 else ("sync", "sync", "future")[tp.draw(3, "f_nr")]
            fp.exc = tp.draw(len(EXC_KINDS), "f_exc")
            fp.msg = self._msg(fp.exc if fp.fault in ("raise", "ret_exc") else None)
            self._count("field:" + fp.fault)
        elif cfg.hang_num and tp.draw(24, "f_hang") < cfg.hang_num and fp.delivery != "sync":
            fp.fault = "hang"
            self._count("field:hang")
        self.fields[path] = fp
        return fp

    def item(self, path, t):
        ip = self.items.get(path)
        if ip is not None:
            return ip
        tp = self.t
        cfg = self.cfg
        ip = ItemPlan()
        if tp.draw(8, "i_async") < (cfg.async_num if cfg.focus == "seriality"
                                    else cfg.async_num // 2):
            ip.delivery = "future"
            slowc = tp.draw(8, "i_slowc")
            if slowc < cfg.slowc_num:
                ip.delivery = "slowc"  # awaitable item whose cancellation takes time
            elif slowc >= 6:
                ip.delivery = "settled"  # a future that is already settled when handed over
            self.n_async += 1
        if tp.draw(32, "i_fault") < cfg.fault_num and cfg.focus != "seriality":
            inner = t.of_type if is_non_null_type(t) else t
            kinds = ["null", "ret_exc", "raise"]
            if is_leaf_type(inner):
                kinds.append("bad_leaf")
            ip.fault = kinds[tp.draw(len(kinds), "i_fk")]
            if ip.fault == "raise" and ip.delivery == "sync":
                ip.fault = "ret_exc"
            ip.exc = tp.draw(len(EXC_KINDS), "i_exc")
            ip.msg = self._msg(ip.exc if ip.fault in ("raise", "ret_exc") else None)
            self._count("item:" + ip.fault)
        self.items[path] = ip
        return ip

    def list(self, path, n, item_t):
        lp = self.lists.get(path)
        if lp is not None:
            return lp
        tp = self.t
        cfg = self.cfg
        lp = ListPlan()
        if tp.draw(8, "l_iter") < cfg.iter_num:
            lp.kind = ("gen", "aiter", "agen", "tuple", "aiter_noclose", "aiter")[tp.draw(6, "l_kind")]
            if not cfg.allow_async and lp.kind not in ("gen", "tuple"):
                lp.kind = "gen"
        if lp.kind in ("aiter", "agen", "aiter_noclose"):
            self.n_async += 1
            lp.anext = tuple(tp.draw(8, "l_anext") < max(cfg.async_num, 2) for _ in range(n + 1))
            if tp.draw(8, "l_close") < cfg.slow_close_num:
                lp.close = ("slow", "raises")[tp.draw(2, "l_closek")]
            lp.has_aclose = lp.kind != "aiter_noclose"
        if lp.kind not in ("list", "tuple") and tp.draw(16, "l_fail") < cfg.src_fault_num:
            lp.fail_after = tp.draw(n + 1, "l_failj")
            lp.exc = tp.draw(len(EXC_KINDS), "l_exc")
            lp.msg = self._msg(lp.exc)
            self._count("source:raise")
        self.lists[path] = lp
        return lp

    def abstract(self, path, abstract_name, concrete, type_mode):
        ap = self.abstr.get(path)
        if ap is not None:
            return ap
        tp = self.t
        cfg = self.cfg
        ap = AbsPlan()
        if type_mode == "resolve_type" and tp.draw(8, "a_async") < cfg.async_num:
            ap.delivery = "future"
            self.n_async += 1
        if (type_mode != "is_type_of" and tp.draw(32, "a_fault") < cfg.fault_num
                and cfg.focus != "seriality"):
            kinds = ["none", "unknown", "nonobject", "notpossible"]
            if type_mode == "resolve_type":
                kinds += ["raise", "nonstring"]
            ap.fault = kinds[tp.draw(len(kinds), "a_fk")]
            ap.exc = tp.draw(len(EXC_KINDS), "a_exc")
            ap.msg = self._msg(ap.exc) if ap.fault == "raise" else None
            self._count("abstract:" + ap.fault)
        self.abstr[path] = ap
        return ap

    def istype(self, path, tname, actual):
        key = (path, tname)
        ip = self.istypes.get(key)
        if ip is not None:
            return ip
        tp = self.t
        cfg = self.cfg
        ip = AbsPlan()
        if tp.draw(8, "t_async") < cfg.async_num:
            ip.delivery = "future"
            self.n_async += 1
        if actual and tp.draw(32, "t_fault") < cfg.fault_num:
            ip.fault = ("false", "raise")[tp.draw(2, "t_fk")]
            ip.exc = tp.draw(len(EXC_KINDS), "t_exc")
            ip.msg = self._msg(ip.exc) if ip.fault == "raise" else None
            self._count("istype:" + ip.fault)
        self.istypes[key] = ip
        return ip

    def render(self):
        out = []
        for d, tag in ((self.fields, "field"), (self.items, "item"), (self.lists, "list"),
                       (self.abstr, "abs")):
            for k, v in d.items():
                r = repr(v)
                if r not in ("F(sync)", "I(sync)", "L(list)", "T(sync)"):
                    out.append(["/".join(map(str, k)), r])
        for (p, tn), v in self.istypes.items():
            r = repr(v)
            if r != "T(sync)":
                out.append(["/".join(map(str, p)) + "@" + tn, r])
        return out
