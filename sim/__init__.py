"""Deterministic simulation harness for graphql-core (see /verif/DESIGN.md)."""
