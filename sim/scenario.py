"""Scenario = schema + requests (document, variables, plan, model result)."""
from __future__ import annotations

from graphql import parse, validate

from .harness import Request, attach
from .model import Model
from .plan import PlanConfig, Planner
from .tape import mix
from .world import Data, DocGen, SchemaSpec, build_world_schema

TYPE_MODES = ("typename", "resolve_type", "is_type_of")


class World:
    def __init__(self, schema, spec, data, type_mode):
        self.schema = schema
        self.spec = spec
        self.data = data
        self.type_mode = type_mode


class RequestSpec:
    def __init__(self, text, doc, opname, kind, variables, planner, model, gen):
        self.text = text
        self.doc = doc
        self.opname = opname
        self.kind = kind
        self.variables = variables
        self.planner = planner
        self.model = model  # Model instance
        self.result = None  # ModelResult in the op's own propagation mode
        self.result0 = None  # ModelResult with propagation disabled (C04)
        self.gen = gen

    def n_positions(self):
        return len(self.result.order)


class Scenario:
    def __init__(self, world, requests, rejected=0):
        self.world = world
        self.requests = requests
        self.rejected = rejected

    def digest(self):
        return "%016x" % mix(self.world.spec.sdl(), [r.text for r in self.requests],
                             [sorted(r.variables.items(), key=str) for r in self.requests],
                             [r.planner.render() for r in self.requests])

    def render(self):
        return {
            "sdl": self.world.spec.sdl(),
            "type_mode": self.world.type_mode,
            "requests": [
                {"document": r.text, "operation": r.opname, "variables": r.variables,
                 "plan": r.planner.render()}
                for r in self.requests
            ],
        }


def build_scenario(tape, kinds=("query", "mutation"), incremental=False, max_requests=3,
                   allow_hang=False, max_depth=4, budget=26, want_r0=False,
                   allow_async=True, focus=None):
    """Returns a Scenario, or None when a generated document is rejected by validate()."""
    spec = SchemaSpec(tape, incremental, nonnull_bias=focus == "nullroot")
    schema = build_world_schema(spec)
    type_mode = TYPE_MODES[tape.weighted((3, 2, 2), "type_mode")]
    if focus == "seriality":
        type_mode = "typename"
    attach(schema, type_mode)
    data = Data(tape.draw(1 << 16, "salt"))
    world = World(schema, spec, data, type_mode)
    nreq = 1 + tape.weighted((6, 2, 1)[:max_requests], "nreq")
    requests = []
    for _ in range(nreq):
        gen = DocGen(tape, spec, incremental=incremental, max_depth=max_depth, budget=budget)
        kind = kinds[tape.draw(len(kinds), "opkind")]
        opname = gen.operation(kind)
        text = gen.document()
        doc = parse(text)
        errs = validate(schema, doc)
        if errs:
            return Scenario(world, [], rejected=1)
        cfg = PlanConfig(tape, allow_hang=allow_hang, allow_async=allow_async, focus=focus)
        planner = Planner(tape, cfg)
        model = Model(schema, doc, data, planner, type_mode)
        variables = gen.variables_for(opname)
        rs = RequestSpec(text, doc, opname, kind, variables, planner, model, gen)
        root = {"__oid": (len(requests) + 1) * 7919, "__t": "Root", "__path": ()}
        rs.root = root
        rs.result = model.execute(opname, variables, root)
        if want_r0:
            rs.result0 = (rs.result if not rs.result.propagate
                          else model.execute(opname, variables, root, propagate=False))
        requests.append(rs)
    return Scenario(world, requests)
