"""SimAllocator: address reuse of FieldDetails objects as an injected fault (DESIGN §2.3).

`id()` is unique only among simultaneously live objects.  Which dead object's
address the next allocation reuses is the allocator's choice; here it is a
seeded decision.  A simulated address is handed out again only for an object
allocated after the previous holder died, so every simulated outcome is one a
legal allocator could produce.
"""
from __future__ import annotations

import builtins
import sys

import graphql.execution.collect_fields as cf
import graphql.execution.executor as ex

_REAL_FD = cf.FieldDetails
_real_id = builtins.id


class _State:
    alloc = None


class SimFieldDetails(_REAL_FD):
    __slots__ = ()

    def __new__(cls, *args, **kwargs):
        self = _REAL_FD.__new__(cls, *args, **kwargs)
        a = _State.alloc
        if a is not None:
            a.register(self)
        return self


def _baseline():
    obj = _REAL_FD.__new__(SimFieldDetails, None, None, None)
    holder = [obj]
    del obj
    # refs: the list + getrefcount's argument
    return sys.getrefcount(holder[0])


class SimAllocator:
    """policy: 'fresh' (never reuse) | 'lifo' | 'random' (tape-drawn)."""

    def __init__(self, policy="fresh", tape=None):
        self.policy = policy
        self.tape = tape
        self.live = []  # strong refs: pins real addresses, makes death observable
        self.addr = {}  # real id -> simulated address
        self.free = []
        self.next_addr = 1 << 20
        self.reuses = 0
        self.allocs = 0
        self.id_calls = 0
        self.baseline = _baseline()

    def sweep(self):
        """Move the simulated addresses of dead objects to the free list."""
        live = self.live
        if not live:
            return
        keep = []
        base = self.baseline
        getrc = sys.getrefcount
        addr = self.addr
        for i in range(len(live)):
            if getrc(live[i]) <= base:
                a = addr.pop(_real_id(live[i]))
                self.free.append(a)
            else:
                keep.append(live[i])
        self.live = keep

    def register(self, obj):
        self.allocs += 1
        a = None
        if self.free and self.policy != "fresh":
            if self.policy == "lifo":
                a = self.free.pop()
            else:
                a = self.free.pop(self.tape.draw(len(self.free), "reuse"))
            self.reuses += 1
        if a is None:
            self.next_addr += 48
            a = self.next_addr
        self.addr[_real_id(obj)] = a
        self.live.append(obj)

    def sim_id(self, obj):
        self.id_calls += 1
        a = self.addr.get(_real_id(obj))
        return a if a is not None else _real_id(obj)


def _collect_subfields_with_sweep(*args, **kwargs):
    a = _State.alloc
    if a is not None:
        a.sweep()
    return _real_collect_subfields(*args, **kwargs)


_real_collect_subfields = ex.collect_subfields
_real_collect_fields = ex.collect_fields


def _collect_fields_with_sweep(*args, **kwargs):
    a = _State.alloc
    if a is not None:
        a.sweep()
    return _real_collect_fields(*args, **kwargs)


def _sim_id(obj):
    a = _State.alloc
    if a is None:
        return _real_id(obj)
    return a.sim_id(obj)


def install():
    """Rebind the seams (module globals of the library, in this process only)."""
    cf.FieldDetails = SimFieldDetails
    ex.FieldDetails = SimFieldDetails
    ex.id = _sim_id
    ex.collect_subfields = _collect_subfields_with_sweep
    ex.collect_fields = _collect_fields_with_sweep


def activate(alloc):
    _State.alloc = alloc


def deactivate():
    a = _State.alloc
    _State.alloc = None
    if a is not None:
        a.live.clear()
        a.addr.clear()
