"""SimLoop: asyncio's own BaseEventLoop under a scheduler we own.

Only the selector, the clock and the task/future factories are replaced; the
ready queue stays FIFO (stock ``_run_once``).  The one decision point is
``FakeSelector.select`` which is called exactly once per loop iteration.
"""
from __future__ import annotations

import asyncio
import asyncio.tasks
import gc
import hashlib
import re
import sys
from asyncio import base_events

_HEX = re.compile(r"0x[0-9a-fA-F]+")


class SimStop(BaseException):
    """Raised out of select() to leave run_forever()."""

    def __init__(self, status):
        super().__init__(status)
        self.status = status


class SimFuture(asyncio.Future):
    def __hash__(self):
        return self._sim_seq

    def __eq__(self, other):
        return self is other


class SimTask(asyncio.Task):
    def __init__(self, coro, *, loop, name, seq, **kwargs):
        self._sim_seq = seq  # needed by __hash__ before Task.__init__ registers the task
        super().__init__(coro, loop=loop, name=name, **kwargs)

    def __hash__(self):
        return self._sim_seq

    def __eq__(self, other):
        return self is other


_gather_seq = [1 << 40]


def _gathering_hash(self):
    try:
        return self._sim_seq
    except AttributeError:
        loop = getattr(self, "_loop", None)
        if isinstance(loop, SimLoop):
            # numbered per simulated loop: independent of what ran earlier in this process
            self._sim_seq = (1 << 40) + loop.next_seq()
        else:
            _gather_seq[0] += 1
            self._sim_seq = _gather_seq[0]
        return self._sim_seq


def install_gather_hash():
    cls = asyncio.tasks._GatheringFuture
    if getattr(cls, "_sim_patched", False):
        return
    cls.__hash__ = _gathering_hash
    cls._sim_patched = True


class FakeSelector:
    def __init__(self, loop):
        self.loop = loop

    def select(self, timeout):
        return self.loop._sim_select(timeout)

    def close(self):
        pass

    def get_map(self):
        return {}


class External:
    """A future handed to the library and completed only by the controller."""

    __slots__ = (
        "label", "kind", "seq", "fut", "outcome", "hanging", "created_poll",
        "fired_poll", "state", "due", "on_fire", "owner", "lazy", "pos", "fired_event", "awaited",
    )

    def __init__(self, label, kind, seq, fut, outcome, hanging, created_poll, owner):
        self.label = label
        self.kind = kind
        self.seq = seq
        self.fut = fut
        self.outcome = outcome  # ("value", v) | ("raise", exc) | ("call", fn)
        self.hanging = hanging
        self.created_poll = created_poll
        self.fired_poll = None
        self.state = "pending"  # pending | fired | cancelled
        self.due = None
        self.on_fire = None
        self.owner = owner  # request index, for per-request accounting
        self.lazy = False  # completes only when nothing non-lazy is pending
        self.pos = None
        self.fired_event = None
        self.awaited = None  # was anybody waiting on the future when it completed?

    def is_pending(self):
        if self.state != "pending":
            return False
        if self.fut is not None and self.fut.done():
            # cancelled by the library
            self.state = "cancelled"
            return False
        return True


class SimLoop(base_events.BaseEventLoop):
    def __init__(self, sim):
        super().__init__()
        self.sim = sim
        self._selector = FakeSelector(self)
        self._now = 0.0
        self._clock_resolution = 1e-9
        self._seq = 0
        self.set_task_factory(self._sim_task_factory)
        self.set_exception_handler(self._exc_handler)
        self.finalizer_hits = []
        self.exc_reports = []
        self.all_tasks_created = []

    # --- replaced OS parts -------------------------------------------------
    def time(self):
        return self._now

    def _process_events(self, event_list):
        pass

    def _write_to_self(self):
        pass

    def _sim_select(self, timeout):
        if timeout:
            self._now += timeout
        self.sim.on_poll(timeout is None)
        return ()

    # --- deterministic identities -----------------------------------------
    def next_seq(self):
        self._seq += 1
        return self._seq

    def create_future(self):
        fut = SimFuture(loop=self)
        fut._sim_seq = self.next_seq()
        return fut

    def _sim_task_factory(self, loop, coro, **kwargs):
        seq = self.next_seq()
        name = kwargs.pop("name", None)
        # never asyncio's global Task-<n> counter
        task = SimTask(coro, loop=loop, name=name or f"T{seq}", seq=seq, **kwargs)
        # strong references: whether an abandoned pending task is still around must not depend
        # on reference cycles and collector timing
        self.all_tasks_created.append(task)
        return task

    def _exc_handler(self, loop, context):
        msg = context.get("message", "")
        exc = context.get("exception")
        self.exc_reports.append((msg, type(exc).__name__ if exc else None))

    # --- asyncgen finaliser accounting ------------------------------------
    def _asyncgen_finalizer_hook(self, agen):
        self.finalizer_hits.append(getattr(agen, "__qualname__", repr(type(agen))))
        self._asyncgens.discard(agen)
        if not self.is_closed():
            self.call_soon(self.create_task, agen.aclose())


class Hang(Exception):
    pass


class Sim:
    """One simulated run: loop + controller + event log."""

    STEP_CAP = 20000

    def __init__(self, sched_tape, step_cap=None):
        install_gather_hash()
        self.tape = sched_tape
        self.loop = SimLoop(self)
        self.poll = 0
        self.externals = []
        self.actions = []
        self.events = []
        self.step_cap = step_cap or self.STEP_CAP
        self.ext_seq = 0
        self.fire_count = 0
        self.decision_trace = []
        self.poll_hooks = []  # callables run at each poll before deciding (probes / triggers)
        self.draining = False
        self.stop_when = None  # callable -> bool: stop running when true at idle
        self.status = None
        self.fault_counts = {}
        # policy
        t = sched_tape
        self.mode = ("choice", "burst", "lifo", "latency", "starve", "fifo1")[
            t.weighted((6, 2, 1, 3, 1, 1), "mode")
        ]
        self.fire_den = (2, 3, 5, 9, 1)[t.draw(5, "fire_den")]
        self.deferred_delivery = t.chance(1, 4, "deferred_delivery")
        self.max_latency = (1, 3, 8)[t.draw(3, "max_latency")]
        self.victim = t.draw(6, "victim") if self.mode == "starve" else None

    # --- logging (never draws, never reads a clock) --------------------------
    def log(self, *fields):
        self.events.append(fields)

    def digest(self):
        h = hashlib.blake2b(digest_size=12)
        for ev in self.events:
            h.update(_HEX.sub("0x", repr(ev)).encode())
            h.update(b"\n")
        return h.hexdigest()

    def count(self, kind, n=1):
        self.fault_counts[kind] = self.fault_counts.get(kind, 0) + n

    # --- externals ---------------------------------------------------------------
    def external(self, label, kind="res", outcome=("value", None), hanging=False, owner=0):
        self.ext_seq += 1
        fut = self.loop.create_future()
        ext = External(label, kind, self.ext_seq, fut, outcome, hanging, self.poll, owner)
        if self.mode == "latency" and not hanging:
            ext.due = self.poll + self.tape.draw(self.max_latency + 1, "lat")
        self.externals.append(ext)
        self.log("ext+", ext.seq, label, kind, hanging)
        return ext

    def action(self, label, fn, not_before=0, trigger=None, owner=0):
        """A controller-fired side effect (abort, close, emit ...)."""
        self.ext_seq += 1
        ext = External(label, "action", self.ext_seq, None, ("call", fn), False, self.poll, owner)
        ext.due = not_before
        ext.on_fire = trigger
        self.actions.append(ext)
        self.log("act+", ext.seq, label)
        return ext

    def _fire(self, ext):
        ext.state = "fired"
        ext.fired_poll = self.poll
        ext.fired_event = len(self.events)
        self.fire_count += 1
        self.log("fire", ext.seq, ext.label, self.poll)
        kind, payload = ext.outcome
        if kind == "call":
            payload()
            return
        fut = ext.fut
        ext.awaited = bool(getattr(fut, "_callbacks", None))

        def deliver():
            if fut.done():
                return
            if kind == "value":
                fut.set_result(payload)
            elif kind == "lazy":
                # the value is built only now, so nothing inside it exists before delivery
                try:
                    fut.set_result(payload())
                except Exception as exc:  # noqa: BLE001
                    fut.set_exception(exc)
            else:
                fut.set_exception(payload)

        if self.deferred_delivery and (ext.seq & 1):
            self.loop.call_soon(deliver)
        else:
            deliver()

    def pending(self):
        pend = [e for e in self.externals if e.is_pending() and not e.hanging]
        eager = [e for e in pend if not e.lazy]
        return eager or pend

    def pending_hanging(self):
        return [e for e in self.externals if e.is_pending() and e.hanging]

    def pending_actions(self):
        return [a for a in self.actions if a.state == "pending"]

    # --- the decision point ---------------------------------------------------------
    def on_poll(self, idle):
        self.poll += 1
        if self.poll > self.step_cap:
            raise SimStop("stepcap")
        for hook in self.poll_hooks:
            hook(idle)
        fired = self._decide(idle)
        if fired:
            self.decision_trace.append((self.poll, fired))
        if idle and not fired:
            raise SimStop("idle")

    def _decide(self, idle):
        pend = self.pending()
        acts = self.pending_actions()
        fired = []
        # triggered / due actions first
        for a in acts:
            trig = a.on_fire
            if trig is not None:
                if trig():
                    self._fire(a)
                    fired.append(a.label)
            elif self.poll >= a.due and not self.draining:
                self._fire(a)
                fired.append(a.label)
        if fired:
            acts = self.pending_actions()
        if self.draining:
            # complete everything that can still complete, oldest first
            if idle:
                for e in pend:
                    self._fire(e)
                    fired.append(e.label)
            return fired
        if not pend:
            if idle and not fired and acts:
                # time jump: nothing else can happen before the next action
                cands = [a for a in acts if a.on_fire is None] or acts
                a = min(cands, key=lambda a: (a.due, a.seq))
                self._fire(a)
                fired.append(a.label)
            return fired
        mode = self.mode
        t = self.tape
        if mode == "choice" or mode == "starve":
            if mode == "starve" and len(pend) > 1:
                # the victim is the external created (victim+1)-th; it completes last
                vseq = self.victim + 1
                pend2 = [e for e in pend if e.seq != vseq]
                if pend2:
                    pend = pend2
            if idle and not fired:
                i = t.draw(len(pend), "idle_pick")
                e = pend.pop(i)
                self._fire(e)
                fired.append(e.label)
            # extra completions in this same poll
            while pend and t.draw(self.fire_den, "more") == self.fire_den - 1 and self.fire_den > 1:
                i = t.draw(len(pend), "pick")
                e = pend.pop(i)
                self._fire(e)
                fired.append(e.label)
        elif mode == "fifo1":
            if idle and not fired:
                e = pend[0]
                self._fire(e)
                fired.append(e.label)
        elif mode == "lifo":
            if idle and not fired:
                e = pend[-1]
                self._fire(e)
                fired.append(e.label)
        elif mode == "burst":
            if idle and not fired:
                order = list(pend)
                if t.chance(1, 2, "burst_rev"):
                    order.reverse()
                for e in order:
                    self._fire(e)
                    fired.append(e.label)
        elif mode == "latency":
            due = [e for e in pend if e.due is not None and e.due <= self.poll]
            if not due and idle and not fired:
                m = min(e.due if e.due is not None else self.poll for e in pend)
                due = [e for e in pend if (e.due if e.due is not None else self.poll) == m]
            for e in sorted(due, key=lambda e: (e.due or 0, e.seq)):
                self._fire(e)
                fired.append(e.label)
        return fired

    # --- running ----------------------------------------------------------------------
    def run(self, main_coro, name="main"):
        """Run until idle. Returns status: 'idle' | 'stepcap'."""
        loop = self.loop
        gc_was = gc.isenabled()
        gc.disable()
        old_loop_policy_loop = None
        try:
            asyncio.set_event_loop(loop)
            self.main_task = loop.create_task(main_coro, name=name)
            try:
                loop.run_forever()
                self.status = "stopped"
            except SimStop as s:
                self.status = s.status
        finally:
            asyncio.set_event_loop(None)
            if gc_was:
                gc.enable()
        return self.status

    def resume(self):
        """Continue running (e.g. in draining mode) until idle again."""
        loop = self.loop
        gc_was = gc.isenabled()
        gc.disable()
        try:
            asyncio.set_event_loop(loop)
            try:
                loop.run_forever()
                self.status = "stopped"
            except SimStop as s:
                self.status = s.status
        finally:
            asyncio.set_event_loop(None)
            if gc_was:
                gc.enable()
        return self.status

    def unfinished_tasks(self):
        return [t for t in self.loop.all_tasks_created if not t.done()]

    def close(self):
        """Dispose of whatever is left (after verdicts were taken)."""
        loop = self.loop
        left = self.unfinished_tasks()
        if left:
            for t in left:
                t.cancel()
            self.draining = True
            self.step_cap = self.poll + 2000
            for e in self.externals:
                if e.is_pending():
                    e.hanging = False
            try:
                self.resume()
            except BaseException:
                pass
        try:
            loop._ready.clear()
            loop.close()
        except Exception:
            pass
        loop.all_tasks_created = []
