"""W1: parametric schema, data function and document generator (DESIGN §3.1).

Everything random comes from the plan tape; nothing here imports
graphql.execution.
"""
from __future__ import annotations

import json

from graphql import (
    GraphQLDeferDirective,
    GraphQLSchema,
    GraphQLStreamDirective,
    build_schema,
)
from graphql.type import (
    GraphQLList,
    GraphQLNonNull,
    is_abstract_type,
    is_leaf_type,
    is_list_type,
    is_non_null_type,
)
from graphql.type.directives import GraphQLDisableErrorPropagationDirective

from .tape import mix

OBJECTS = ("A", "B", "C", "D")
ABSTRACTS = {"Node": ("A", "B", "C"), "Named": ("A", "B"), "U": ("B", "C", "D")}
IMPLEMENTS = {"A": ("Node", "Named"), "B": ("Node", "Named"), "C": ("Node",), "D": ()}
IFACE_FIELDS = {"Node": ("id", "node"), "Named": ("name",)}
ROOTS = {"query": "Query", "mutation": "Mutation", "subscription": "Subscription"}
COLORS = ("RED", "GREEN", "BLUE")

# name, named type, list mode (0 free, 1 forced list, 2 forced nested), arg names
POOL = (
    ("id", "ID", 0, ()),
    ("name", "String", 0, ("pre",)),
    ("num", "Int", 0, ()),
    ("ratio", "Float", 0, ()),
    ("flag", "Boolean", 0, ()),
    ("color", "Color", 0, ()),
    ("tags", "String", 1, ()),
    ("nums", "Int", 1, ()),
    ("calc", "Int", 0, ("x", "s")),
    ("pick", "String", 0, ("c", "xs", "b")),
    ("a", "A", 0, ()),
    ("b", "B", 0, ()),
    ("c", "C", 0, ()),
    ("d", "D", 0, ()),
    ("node", "Node", 0, ()),
    ("named", "Named", 0, ()),
    ("u", "U", 0, ()),
    ("as", "A", 1, ()),
    ("nodes", "Node", 1, ()),
    ("us", "U", 1, ()),
    ("grid", "A", 2, ()),
    ("find", "A", 0, ("f", "id")),
    # served by the library's default resolver from the source mapping (mode 3: never a list);
    # named after attributes every dict has
    ("items", "String", 3, ()),
    ("values", "Int", 3, ()),
    ("get", "String", 3, ()),
)
DEFAULT_RESOLVED = ("items", "values", "get")
LEAF_NAMES = ("ID", "String", "Int", "Float", "Boolean", "Color")

FREE_WRAPS = ("{}", "{}!", "[{}]", "[{}!]", "[{}]!", "[{}!]!")
FREE_WEIGHTS = (8, 3, 1, 1, 1, 1)
NONNULL_WEIGHTS = (5, 7, 1, 1, 1, 1)  # focus "nullroot": failures propagate far
LIST_WRAPS = ("[{}]", "[{}!]", "[{}]!", "[{}!]!")
NESTED_WRAPS = ("[[{}]]", "[[{}!]!]", "[[{}]!]", "[[{}!]]!")

FILTER_SDL = (
    "input Filter { min: Int = 1, tag: String!, colors: [Color!] = [RED], sub: Filter }"
)


class Bad:
    """An out-of-domain leaf value (no scalar accepts it)."""

    def __repr__(self):
        return "<Bad>"


class SchemaSpec:
    """What the tape drew for this run's schema."""

    def __init__(self, tape, incremental=False, nonnull_bias=False):
        self.incremental = incremental
        self.wrap = {}
        for name, named, mode, _args in POOL:
            if mode == 3:
                self.wrap[name] = ("{}", "{}", "{}!")[tape.draw(3, "dwrap")]
            elif mode == 0:
                # interface-declared fields stay simple more often
                self.wrap[name] = FREE_WRAPS[tape.weighted(
                    NONNULL_WEIGHTS if nonnull_bias else FREE_WEIGHTS, "wrap")]
            elif mode == 1:
                self.wrap[name] = LIST_WRAPS[tape.draw(4, "lwrap")]
            else:
                self.wrap[name] = NESTED_WRAPS[tape.draw(4, "nwrap")]
        # argument signatures
        self.args = {
            "x": ("Int", (None, "7")[tape.draw(2, "dx")]),
            "s": ("String", (None, '"ds"')[tape.draw(2, "ds")]),
            "c": ("Color", (None, "GREEN")[tape.draw(2, "dc")]),
            "xs": (("[Int!]", "[Int]")[tape.draw(2, "txs")], (None, "[1, 2]")[tape.draw(2, "dxs")]),
            "b": (("Boolean", "Boolean!", "Boolean!")[i := tape.draw(3, "tb")],
                  (None, None, "true")[i]),
            "f": ("Filter", (None, '{tag: "dt"}', '{tag: "dt", sub: {tag: "in", min: 5}}')[tape.draw(3, "df")]),
            "id": ("ID", None),
            # default differs per implementing type (see field_sdl): interface field arguments
            "pre": ("String", "?"),
        }
        # Python-side names of some arguments / input fields (GraphQL-core's out_name)
        self.out_names = bool(tape.draw(2, "out_names"))
        self.members = {}
        for tname in ("Query", "Mutation", "Subscription") + OBJECTS:
            mandatory = set()
            for iface in IMPLEMENTS.get(tname, ()):
                mandatory.update(IFACE_FIELDS[iface])
            if tname in OBJECTS:
                mandatory.add("id")
            fields = []
            for name, _named, _mode, _a in POOL:
                if _mode == 3 and tname not in OBJECTS:
                    continue  # root values are plain markers, not data objects
                if name in mandatory or tape.draw(5, "member") < 3:
                    fields.append(name)
            if not any(f in ("a", "b", "c", "d", "node", "named", "u", "as", "nodes", "us")
                       for f in fields):
                fields.append("node")
            self.members[tname] = fields
        for iface, fs in IFACE_FIELDS.items():
            self.members[iface] = list(fs)
        self.members["U"] = []

    def field_sdl(self, name, tname=""):
        _n, named, _mode, argnames = next(p for p in POOL if p[0] == name)
        t = self.wrap[name].format(named)
        if argnames:
            parts = []
            for a in argnames:
                at, dflt = self.args[a]
                if a == "pre":
                    dflt = f'"p{tname}"' 
                parts.append(f"{a}: {at}" + (f" = {dflt}" if dflt is not None else ""))
            return f"{name}({', '.join(parts)}): {t}"
        return f"{name}: {t}"

    def sdl(self):
        out = ["enum Color { RED GREEN BLUE }", FILTER_SDL]
        for iface, fs in IFACE_FIELDS.items():
            out.append(f"interface {iface} {{ " + " ".join(self.field_sdl(f, iface) for f in fs) + " }")
        out.append("union U = B | C | D")
        for t in OBJECTS:
            impl = IMPLEMENTS[t]
            head = f"type {t}" + (" implements " + " & ".join(impl) if impl else "")
            out.append(head + " { " + " ".join(self.field_sdl(f, t) for f in self.members[t]) + " }")
        for t in ("Query", "Mutation", "Subscription"):
            out.append(f"type {t} {{ " + " ".join(self.field_sdl(f, t) for f in self.members[t]) + " }")
        return "\n".join(out)


def build_world_schema(spec):
    schema = build_schema(spec.sdl())
    extra = [GraphQLDisableErrorPropagationDirective]
    if spec.incremental:
        extra += [GraphQLDeferDirective, GraphQLStreamDirective]
    kwargs = schema.to_kwargs()
    kwargs["directives"] = tuple(kwargs["directives"]) + tuple(extra)
    schema = GraphQLSchema(**kwargs)
    if spec.out_names:
        for t in schema.type_map.values():
            for f in (getattr(t, "fields", None) or {}).values():
                for an, arg in (getattr(f, "args", None) or {}).items():
                    if an in OUT_NAMES:
                        arg.out_name = OUT_NAMES[an]
        flt = schema.type_map["Filter"]
        flt.fields["min"].out_name = "minimum"
    return schema


OUT_NAMES = {"xs": "xs_list", "s": "s_text", "pre": "prefix"}


def possible_names(tname):
    if tname in ABSTRACTS:
        return ABSTRACTS[tname]
    return (tname,)


COMPOSITES = OBJECTS + tuple(ABSTRACTS)


def overlapping(tname):
    """Composite types whose possible types intersect those of tname."""
    mine = set(possible_names(tname))
    return [t for t in COMPOSITES if mine & set(possible_names(t))]


def canon(value):
    """Canonical text of a coerced argument value (type-exact)."""
    if isinstance(value, dict):
        return "{" + ",".join(f"{k}:{canon(value[k])}" for k in sorted(value)) + "}"
    if isinstance(value, (list, tuple)):
        return "[" + ",".join(canon(v) for v in value) + "]"
    if isinstance(value, bool):
        return "b1" if value else "b0"
    if isinstance(value, int):
        return f"i{value}"
    if isinstance(value, float):
        return f"f{value!r}"
    if value is None:
        return "n"
    return "s" + json.dumps(str(value))


class Data:
    """The keyed data function D(salt, oid, field, canon(args))."""

    def __init__(self, salt):
        self.salt = salt

    def value(self, ftype, oid, fname, args):
        key = (self.salt, oid, fname, canon(args) if args else "")
        return self._gen(ftype, key)

    def default_entry(self, ftype, oid, fname):
        """What the source mapping holds for a field served by the default resolver:
        ("value", v) | ("none", None) | ("absent", None)."""
        m = mix(self.salt, oid, fname, "entry") % 5
        if m == 3:
            return "none", None
        if m == 4:
            return "absent", None
        v = self.value(ftype, oid, fname, None)
        return ("value", v) if v is not None else ("none", None)

    def _gen(self, t, key):
        if is_non_null_type(t):
            return self._gen_nn(t.of_type, key)
        if mix(key, "null") % 9 == 0:
            return None
        return self._gen_nn(t, key)

    def _gen_nn(self, t, key):
        if is_list_type(t):
            n = mix(key, "len") % 4
            item = t.of_type.of_type if is_non_null_type(t.of_type) else t.of_type
            if is_leaf_type(item) and mix(key, "long") % 8 == 0:
                # now and then a long list of leaves: two-digit indices, a tail well beyond any
                # initialCount, many items in flight at once
                n = 11 + mix(key, "long2") % 3
            return [self._gen(t.of_type, key + (i,)) for i in range(n)]
        name = t.name
        h = mix(key, "v")
        if name == "Int":
            return (h % 2001) - 1000 if h % 7 else (h % (2**31)) * (1 if h & 1 else -1)
        if name == "Float":
            return ((h % 20001) - 10000) / 8.0
        if name == "String":
            return ("s%d" % (h % 1000)) if h % 11 else ""
        if name == "Boolean":
            return bool(h & 1)
        if name == "ID":
            return ("id%d" % (h % 1000)) if h % 3 else h % 1000
        if name == "Color":
            return COLORS[h % 3]
        # composite
        poss = possible_names(name)
        concrete = poss[h % len(poss)]
        return {"__oid": mix(key, "oid") % 1000003, "__t": concrete}


def serialize_leaf(tname, v):
    """Spec result coercion for in-domain values."""
    if tname == "ID":
        return str(v)
    return v


# ----------------------------------------------------------------------------------------
# Document generator
# ----------------------------------------------------------------------------------------


class Frag:
    __slots__ = ("name", "cond", "text", "vars", "done", "has_defer", "top")

    def __init__(self, name, cond):
        self.name = name
        self.cond = cond
        self.text = None
        self.vars = set()
        self.done = False
        self.has_defer = False
        self.top = []  # (head, named type) of the object fields at the top of the fragment


class DocGen:
    """Type-directed generator of validated-by-construction documents (text)."""

    def __init__(self, tape, spec, incremental=False, max_depth=4, budget=26,
                 allow_abstract=True, disabled_only=False):
        self.t = tape
        self.spec = spec
        self.incremental = incremental
        self.disabled_only = disabled_only  # only @defer/@stream with if: false (subscriptions)
        self.max_depth = max_depth
        self.budget = budget
        self.frags = []
        self.vars = {}  # name -> (type text, default text or None)
        self.var_values = {}  # name -> python value (absent = not provided)
        self.nvar = 0
        self.nlabel = 0
        self.nstream = 0
        self.ops = []  # (name, kind, text)
        self.labels_parent = {}  # label -> parent label or None / "?" when ambiguous
        self.field_parts = {}  # text of an object-field selection -> (head, [sub-selections])
        self.field_heads = {}  # text of an object-field selection -> (head, named type)
        self.last_sels = []
        self.features = set()

    # --- input literals -------------------------------------------------------------
    def nested_var(self, tstr, used):
        """A variable at a list-item or input-field position of an argument literal: no default
        exists for the position, so a nullable variable at a non-null position must carry a
        default of its own (an explicit null for it is then a field error)."""
        t = self.t
        self.features.add("variable_inside_literal")
        if tstr.endswith("!"):
            if t.draw(2, "nv_nullable"):
                return self.new_var(tstr[:-1], used, force_default=True)
            return self.new_var(tstr, used, allow_omit=False)
        return self.new_var(tstr + ("!" if t.draw(3, "nv_nn") == 2 else ""), used)

    def lit(self, tstr, depth=0, used=None):
        """(literal text, python value for use as variable value). With `used` (argument
        literals only) list items and input fields may be variables."""
        t = self.t
        if tstr.endswith("!"):
            return self.lit(tstr[:-1], depth, used)
        if tstr.startswith("["):
            inner = tstr[1:-1]
            if t.draw(6, "single") == 5:  # single value coerced to list
                return self.lit(inner, depth, used)
            n = t.draw(3, "llen")
            items = []
            for _ in range(n):
                if used is not None and not inner.startswith("[") and t.draw(4, "item_var") == 3:
                    items.append((self.nested_var(inner, used), None))
                else:
                    items.append(self.lit(inner, depth, used))
            return "[" + ", ".join(i[0] for i in items) + "]", [i[1] for i in items]
        if tstr == "Int":
            v = (0, 1, -5, 42, 2147483647, -2147483648)[t.draw(6, "int")]
            return str(v), v
        if tstr == "Float":
            v = (0.5, 1, -2.25, 1e3)[t.draw(4, "float")]
            return repr(v), v
        if tstr == "String":
            v = ("a", "", "x y", 'q"q', "é")[t.draw(5, "str")]
            return json.dumps(v, ensure_ascii=False), v
        if tstr == "Boolean":
            v = bool(t.draw(2, "bool"))
            return ("true" if v else "false"), v
        if tstr == "ID":
            k = t.draw(3, "idk")
            if k == 0:
                return '"i1"', "i1"
            if k == 1:
                return "17", 17
            return '"17"', "17"
        if tstr == "Color":
            v = COLORS[t.draw(3, "color")]
            return v, v
        if tstr == "Filter":
            parts, val = [], {}
            # tag is required
            if used is not None and t.draw(4, "ftag_var") == 3:
                s, v = self.nested_var("String!", used), None
            else:
                s, v = self.lit("String")
            parts.append(f"tag: {s}")
            val["tag"] = v
            if t.draw(3, "fmin") == 2:
                k = t.draw(3, "fmink")
                if k == 2:
                    parts.append("min: null")
                    val["min"] = None
                elif used is not None and t.draw(3, "fmin_var") == 2:
                    parts.append(f"min: {self.nested_var('Int', used)}")
                else:
                    s, v = self.lit("Int")
                    parts.append(f"min: {s}")
                    val["min"] = v
            if t.draw(3, "fcol") == 2:
                s, v = self.lit("[Color!]", depth, used)
                parts.append(f"colors: {s}")
                val["colors"] = v
            if depth < 2 and t.draw(4, "fsub") == 3:
                s, v = self.lit("Filter", depth + 1, used)
                parts.append(f"sub: {s}")
                val["sub"] = v
            if t.draw(4, "forder") == 3:
                parts.reverse()
            return "{" + ", ".join(parts) + "}", val
        raise AssertionError(tstr)

    def new_var(self, tstr, used, allow_omit=True, force_default=False):
        """Declare a fresh variable of the given type; returns '$name'."""
        t = self.t
        self.nvar += 1
        name = f"v{self.nvar}"
        nonnull = tstr.endswith("!")
        default = None
        if t.draw(3, "vdef") == 2 or force_default:
            default = self.lit(tstr)[0]
        mode = t.draw(4, "vmode")  # 0 provided, 1 provided, 2 omitted, 3 null
        if mode == 2 and (default is not None or not nonnull) and allow_omit:
            pass  # omitted
        elif mode == 3 and not nonnull:
            self.var_values[name] = None
        else:
            self.var_values[name] = self.lit(tstr)[1]
        self.vars[name] = (tstr, default)
        used.add(name)
        return "$" + name

    def arg_value(self, tstr, has_default, used):
        """Text of an argument value or None when omitted."""
        t = self.t
        nonnull = tstr.endswith("!")
        k = t.weighted((3, 4, 3, 1), "argk")  # omitted, literal, variable, null
        if k == 0:
            if nonnull and not has_default:
                return self.lit(tstr, 0, used)[0]
            return None
        if k == 1:
            return self.lit(tstr, 0, used)[0]
        if k == 2:
            self.features.add("arg_variable")
            if nonnull and not has_default:
                # must supply a value: non-null variable, always provided
                vt = tstr
                return self.new_var(vt, used, allow_omit=False)
            vt = tstr
            if t.draw(3, "vnn") == 2 and not nonnull:
                vt = tstr + "!"
            if nonnull and has_default:
                # a nullable variable is allowed in a non-null position that has a default
                # (explicit null then is a field error; an omitted variable uses the default)
                vt = tstr[:-1] if t.draw(2, "vnullable") else tstr
                if not vt.endswith("!"):
                    self.features.add("nullable_var_in_nonnull_arg")
            return self.new_var(vt, used, allow_omit=not vt.endswith("!"))
        if nonnull:
            return self.lit(tstr)[0]
        return "null"

    # --- selections --------------------------------------------------------------------
    def field_sel(self, parent, fname, depth, used, root_kind=None):
        t = self.t
        spec = self.spec
        _n, named, mode, argnames = next(p for p in POOL if p[0] == fname)
        self.budget -= 1
        argtxt = []
        variant = []
        for a in argnames:
            at, dflt = spec.args[a]
            v = self.arg_value(at, dflt is not None, used)
            if v is not None:
                argtxt.append(f"{a}: {v}")
                variant.append(f"{a}{abs(hash_text(v)) % 997}")
            else:
                variant.append("")
        directives = []
        alias_bits = []
        if any(variant):
            alias_bits.append("_".join(x for x in variant if x))
        wrap = spec.wrap[fname]
        is_list = wrap.startswith("[")
        if (self.incremental and is_list and root_kind != "mutation"
                and (root_kind != "subscription" or self.disabled_only)
                and t.draw(2, "stream") == 1):
            ic = t.draw(4, "ic")
            sargs = [f"initialCount: {ic}"] if ic or t.draw(2, "ic0") else []
            sv = f"s{ic}"
            k = t.draw(6, "sif")
            if self.disabled_only:
                k = 4 if t.draw(2, "sdis") else 6
            if k == 4:
                sargs.append("if: false")
                sv += "f"
            elif k >= 5:
                self.nvar += 1
                vn = f"sv{self.nvar}"
                self.vars[vn] = ("Boolean!", None)
                self.var_values[vn] = bool(t.draw(2, "svv")) if k == 5 else False
                used.add(vn)
                sargs.append(f"if: ${vn}")
                sv += vn
            if t.draw(4, "slabel") == 3:
                self.nstream += 1
                lab = f"S{self.nstream}"
                sargs.append(f'label: "{lab}"')
                sv += lab
            alias_bits.append(sv)
            directives.append("@stream" + (f"({', '.join(sargs)})" if sargs else ""))
            self.features.add("stream")
        if t.draw(8, "alias") == 7:
            alias_bits.append("k")
        alias = fname + "_" + "_".join(alias_bits) if alias_bits else None
        if root_kind != "subscription":  # not allowed on the root field of a subscription
            directives += self.skip_include(used)
        sub = ""
        parts = None
        if named not in LEAF_NAMES:
            sub = " " + self.selection_set(named, depth + 1, used)
            parts = self.last_sels
        head = (f"{alias}: " if alias else "") + fname
        if argtxt:
            head += "(" + ", ".join(argtxt) + ")"
        if directives:
            head += " " + " ".join(directives)
        if parts is not None:
            self.field_parts[head + sub] = (head, parts)
            self.field_heads[head + sub] = (head, named)
        return head + sub

    def skip_include(self, used):
        t = self.t
        out = []
        k = t.draw(14, "skipinc")
        if k < 10:
            return out
        which = ("@skip", "@include")[k & 1]
        if k < 12:
            val = ("true", "false")[t.draw(2, "silit")]
        else:
            self.nvar += 1
            vn = f"c{self.nvar}"
            self.vars[vn] = ("Boolean!", None)
            self.var_values[vn] = bool(t.draw(2, "sivar"))
            used.add(vn)
            val = "$" + vn
        out.append(f"{which}(if: {val})")
        if t.draw(6, "both") == 5:
            other = "@include" if which == "@skip" else "@skip"
            out.append(f"{other}(if: {('true', 'false')[t.draw(2, 'both2')]})")
        self.features.add("skip_include")
        return out

    def defer_directive(self, used, ctx):
        """Returns (text, new ctx) for an optional @defer."""
        t = self.t
        if not self.incremental or ctx.get("no_defer") or t.draw(2, "defer") != 1:
            return "", ctx
        args = []
        k = t.draw(8, "dif")
        active = True
        force_false = False
        if self.disabled_only:
            k = 6 if t.draw(2, "ddis") else 7
            force_false = True
        if k == 6:
            args.append("if: false")
            active = False
        elif k == 7:
            self.nvar += 1
            vn = f"dv{self.nvar}"
            self.vars[vn] = ("Boolean!", None)
            val = bool(t.draw(2, "dvv")) and not force_false
            self.var_values[vn] = val
            used.add(vn)
            args.append(f"if: ${vn}")
            active = val
        label = None
        if t.draw(4, "dlabel") != 0:
            self.nlabel += 1
            label = f"L{self.nlabel}"
            args.append(f'label: "{label}"')
        self.features.add("defer")
        txt = "@defer" + (f"({', '.join(args)})" if args else "")
        new_ctx = dict(ctx)
        if active:
            if label is not None:
                self.labels_parent[label] = "?" if ctx.get("in_frag") else ctx.get("defer_label")
                new_ctx["defer_label"] = label
            else:
                new_ctx["defer_label"] = "?"
        return txt, new_ctx

    def selection_set(self, tname, depth, used, ctx=None, root_kind=None):
        t = self.t
        ctx = ctx or {}
        fields = self.spec.members[tname]
        n = 1 + t.weighted((3, 4, 3, 2), "nsel")
        sels = []
        heads_here = []  # object fields selected so far in this set (directly / via a spread)
        for _ in range(n):
            if self.budget <= 0 and sels:
                break
            can_nest = depth < self.max_depth and self.budget > 0
            w_field = 8 if fields else 0
            w_inline = (4 if self.incremental else 2) if can_nest else 0
            w_spread = (3 if self.incremental else 2) if can_nest else 0
            w_tn = 1 if root_kind not in ("subscription",) else 0
            if root_kind == "subscription":
                w_inline = w_spread = 0
            if root_kind == "mutation":
                w_spread = 0
            k = t.weighted((w_field, w_tn, w_inline, w_spread), "selkind")
            if (k == 0 and heads_here and can_nest and root_kind != "subscription"
                    and t.draw(6, "rehead") == 5):
                # the same response key once more (same name, alias, arguments, directives) with
                # another sub-selection: the two field nodes must be merged - also when the
                # first one came in through a fragment spread that is used elsewhere as well
                head, named_ = heads_here[t.draw(len(heads_here), "rehead_pick")]
                self.budget -= 1
                sels.append(head + " " + self.selection_set(named_, depth + 1, used))
                self.features.add("merged_duplicate_field")
                continue
            if k == 0 and fields:
                choices = fields
                if depth >= self.max_depth:
                    leaf = [f for f in fields if pool_named(f) in LEAF_NAMES]
                    choices = leaf or fields
                    if not leaf:
                        sels.append("__typename")
                        continue
                fname = choices[t.draw(len(choices), "fname")]
                sels.append(self.field_sel(tname, fname, depth, used, root_kind))
                hd = self.field_heads.get(sels[-1])
                if hd is not None and 'label: "' not in hd[0]:
                    heads_here.append(hd)
            elif k == 1 or (k == 0 and not fields):
                if root_kind == "subscription":
                    continue
                sels.append("__typename")
                self.budget -= 1
            elif k == 2:
                conds = overlapping(tname) if tname not in ROOTS.values() else [tname]
                cond = conds[t.draw(len(conds), "icond")]
                no_cond = tname == cond and t.draw(2, "nocond") == 1
                dtxt, nctx = self.defer_directive(
                    used, ctx if root_kind not in ("mutation", "subscription") else {"no_defer": 1})
                dirs = [dtxt] if dtxt else []
                dirs += self.skip_include(used)
                body = self.selection_set(cond, depth + 1, used, nctx,
                                          root_kind if tname in ROOTS.values() else None)
                head = "..." + ("" if no_cond else f" on {cond}")
                if dirs:
                    head += " " + " ".join(dirs)
                sels.append(head + " " + body)
                self.features.add("inline_fragment")
            else:
                conds = overlapping(tname) if tname not in ROOTS.values() else [tname]
                reuse = [f for f in self.frags if f.done and f.cond in conds]
                if reuse and t.draw(2, "reuse") == 1:
                    frag = reuse[t.draw(len(reuse), "rfrag")]
                    self.features.add("fragment_reuse")
                else:
                    cond = conds[t.draw(len(conds), "fcond")]
                    frag = Frag(f"F{len(self.frags) + 1}", cond)
                    self.frags.append(frag)
                    fused = set()
                    # defer nesting inside a named fragment is context dependent: mark unknown
                    body = self.selection_set(cond, depth + 1, fused,
                                              {"defer_label": "?", "in_frag": 1})
                    frag.text = f"fragment {frag.name} on {cond} {body}"
                    frag.top = [self.field_heads[x] for x in self.last_sels
                                if x in self.field_heads]
                    frag.vars = fused
                    frag.done = True
                used.update(frag.vars)
                dtxt, _nctx = self.defer_directive(
                    used, ctx if root_kind not in ("mutation", "subscription") else {"no_defer": 1})
                dirs = [dtxt] if dtxt else []
                dirs += self.skip_include(used)
                sels.append(f"...{frag.name}" + (" " + " ".join(dirs) if dirs else ""))
                if frag.cond == tname:
                    tops = [h for h in frag.top if 'label: "' not in h[0]]
                    heads_here.extend(tops)
                    if tops and self.budget > 0 and t.draw(3, "rehead_spread") == 2:
                        # right away: a field of the fragment selected directly as well, with
                        # another sub-selection (the spread's node stays the first of the merged list)
                        head, named_ = tops[t.draw(len(tops), "rehead_spread_pick")]
                        self.budget -= 1
                        sels.append(head + " " + self.selection_set(named_, depth + 1, used))
                        self.features.add("merged_duplicate_field")
                        self.features.add("fragment_field_reselected")
                self.features.add("fragment_spread")
        if not sels:
            sels.append("__typename")
        if (self.incremental and not self.disabled_only
                and root_kind not in ("mutation", "subscription")
                and not ctx.get("no_defer") and t.draw(3, "echo") == 2):
            # overlap on purpose: select one of this set's own fields again inside a (new)
            # deferred fragment, so that fields end up in several defer sets at several depths
            cands = [x for x in sels if not x.startswith("...") and x != "__typename"
                     and 'label: "S' not in x]
            if cands:
                txt = cands[t.draw(len(cands), "echo_pick")]
                fp_ = self.field_parts.get(txt)
                if fp_ is not None and t.draw(2, "echo_subset"):
                    # only part of the sub-selection, so the two fragments differ in content
                    head, parts = fp_
                    keep = [x for x in parts if t.draw(2, "echo_keep")] or parts[:1]
                    txt = head + " { " + " ".join(keep) + " }"
                    self.features.add("echo_subset")
                txt = _strip_defer_labels(txt)
                if t.draw(2, "echo_flat"):
                    txt = _strip_defers(txt)
                self.nlabel += 1
                lab = f"L{self.nlabel}"
                self.labels_parent[lab] = "?" if ctx.get("in_frag") else ctx.get("defer_label")
                wrap = ("... @defer(label: \"%s\")" % lab) if t.draw(3, "echo_lab") else "... @defer"
                if wrap == "... @defer":
                    self.nlabel -= 1
                    del self.labels_parent[lab]
                sels.insert(t.draw(len(sels) + 1, "echo_pos"), f"{wrap} {{ {txt} }}")
                self.features.add("echo_overlap")
                self.features.add("defer")
        self.last_sels = list(sels)
        return "{ " + " ".join(sels) + " }"

    def operation(self, kind="query", no_propagation=None):
        t = self.t
        root = ROOTS[kind]
        used = set()
        name = f"Op{len(self.ops) + 1}"
        if kind == "subscription":
            # exactly one root field (single root field rule)
            fields = self.spec.members[root]
            fname = fields[t.draw(len(fields), "subfield")]
            body = "{ " + self.field_sel(root, fname, 0, used, "subscription") + " }"
        else:
            body = self.selection_set(root, 0, used, None, kind)
        if no_propagation is None:
            no_propagation = t.draw(5, "noprop") == 4
        vdefs = []
        for vn in sorted(used, key=lambda s: (len(s), s)):
            ts, dflt = self.vars[vn]
            vdefs.append(f"${vn}: {ts}" + (f" = {dflt}" if dflt is not None else ""))
        head = f"{kind} {name}" + (f"({', '.join(vdefs)})" if vdefs else "")
        if no_propagation:
            head += " @experimental_disableErrorPropagation"
            self.features.add("no_propagation")
        self.ops.append((name, kind, head + " " + body, used))
        return name

    def document(self):
        parts = [op[2] for op in self.ops] + [f.text for f in self.frags]
        return "\n".join(parts)

    def redraw_variables(self, opname):
        """Another legal variables mapping for the same operation."""
        t = self.t
        used = next(op[3] for op in self.ops if op[0] == opname)
        out = {}
        for name in sorted(used, key=lambda s: (len(s), s)):
            tstr, default = self.vars[name]
            nonnull = tstr.endswith("!")
            mode = t.draw(4, "rv_mode")
            if mode == 2 and (default is not None or not nonnull):
                continue
            if mode == 3 and not nonnull:
                out[name] = None
            else:
                out[name] = self.lit(tstr)[1]
        return out

    def variables_for(self, opname):
        used = next(op[3] for op in self.ops if op[0] == opname)
        return {k: v for k, v in self.var_values.items() if k in used}


_LABEL_RE = None


def _strip_defer_labels(txt):
    """Remove labels of @defer directives (labels must stay unique in a document)."""
    import re

    global _LABEL_RE
    if _LABEL_RE is None:
        _LABEL_RE = (re.compile(r'@defer\(label: "L\d+"\)'),
                     re.compile(r'(@defer\([^)]*?), label: "L\d+"'))
    txt = _LABEL_RE[0].sub("@defer", txt)
    txt = _LABEL_RE[1].sub(r"\1", txt)
    return txt


def _strip_defers(txt):
    import re

    return re.sub(r' ?@defer(\([^)]*\))?', "", txt)


def hash_text(s):
    return mix("alias", s)


def pool_named(fname):
    return next(p[1] for p in POOL if p[0] == fname)
