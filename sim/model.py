"""Reference model of GraphQL execution (DESIGN §3.2, Appendix C.1).

Written from the specification's algorithms.  Imports nothing from
graphql.execution; uses the parser's AST and the schema's type objects as data.
"""
from __future__ import annotations

from graphql.language import (
    BooleanValueNode,
    EnumValueNode,
    FieldNode,
    FloatValueNode,
    FragmentDefinitionNode,
    FragmentSpreadNode,
    InlineFragmentNode,
    IntValueNode,
    ListValueNode,
    NullValueNode,
    ObjectValueNode,
    OperationDefinitionNode,
    StringValueNode,
    VariableNode,
)
from graphql.type import (
    is_abstract_type,
    is_enum_type,
    is_input_object_type,
    is_leaf_type,
    is_list_type,
    is_non_null_type,
    is_object_type,
)
from graphql.utilities import type_from_ast

from .world import DEFAULT_RESOLVED, serialize_leaf

UNSET = object()
BAD = frozenset(("bad",))


class Propagate(Exception):
    pass


class Fail(Exception):
    def __init__(self, rec):
        self.rec = rec


class ErrRec:
    """One field error the model expects: where it originates and why."""

    __slots__ = ("path", "kind", "msg")

    def __init__(self, path, kind, msg=None):
        self.path = tuple(path)
        self.kind = kind
        self.msg = msg

    def __repr__(self):
        return f"Err({'/'.join(map(str, self.path))}:{self.kind}{':' + self.msg if self.msg else ''})"


class FaultValue:
    """A delivered value that makes completion fail at its own position."""

    __slots__ = ("rec_kind", "msg")

    def __init__(self, rec_kind, msg):
        self.rec_kind = rec_kind
        self.msg = msg


# --- input coercion (spec: Input Coercion / CoerceVariableValues / CoerceArgumentValues) ---


def coerce_runtime(t, v):
    """Coerce a provided (already JSON-like, in-domain) variable value."""
    if is_non_null_type(t):
        return coerce_runtime(t.of_type, v)
    if v is None:
        return None
    if is_list_type(t):
        if isinstance(v, list):
            return [coerce_runtime(t.of_type, x) for x in v]
        return [coerce_runtime(t.of_type, v)]
    if is_input_object_type(t):
        out = {}
        for fname, f in t.fields.items():
            key = getattr(f, "out_name", None) or fname
            if fname in v:
                out[key] = coerce_runtime(f.type, v[fname])
            elif f.ast_node is not None and f.ast_node.default_value is not None:
                out[key] = coerce_literal(f.type, f.ast_node.default_value, {})
        return out
    name = t.name
    if name == "Float":
        return float(v)
    if name == "ID":
        return str(v)
    return v


class InvalidLiteral(Exception):
    """The literal cannot be coerced with these variable values (spec: a field error)."""


def _missing(node, variables):
    return isinstance(node, VariableNode) and node.name.value not in variables


def coerce_literal(t, node, variables):
    """Coerce an AST literal; `variables` are the coerced variable values.

    Variables may sit at list-item and input-field positions: a variable without a runtime
    value is null in a list and "not provided" in an input object; null (or nothing) at a
    non-null position makes the whole literal invalid."""
    if isinstance(node, VariableNode):
        value = variables.get(node.name.value)
        if value is None and is_non_null_type(t):
            raise InvalidLiteral
        return value
    if is_non_null_type(t):
        if isinstance(node, NullValueNode):
            raise InvalidLiteral
        return coerce_literal(t.of_type, node, variables)
    if isinstance(node, NullValueNode):
        return None
    if is_list_type(t):
        if isinstance(node, ListValueNode):
            out = []
            for x in node.values:
                if _missing(x, variables):
                    if is_non_null_type(t.of_type):
                        raise InvalidLiteral
                    out.append(None)
                else:
                    out.append(coerce_literal(t.of_type, x, variables))
            return out
        return [coerce_literal(t.of_type, node, variables)]
    if is_input_object_type(t):
        provided = {f.name.value: f.value for f in node.fields}
        out = {}
        for fname, f in t.fields.items():
            key = getattr(f, "out_name", None) or fname
            vnode = provided.get(fname, UNSET)
            if vnode is UNSET or _missing(vnode, variables):
                if f.ast_node is not None and f.ast_node.default_value is not None:
                    out[key] = coerce_literal(f.type, f.ast_node.default_value, {})
                elif is_non_null_type(f.type):
                    raise InvalidLiteral
                continue
            out[key] = coerce_literal(f.type, vnode, variables)
        return out
    name = t.name
    if isinstance(node, IntValueNode):
        if name == "Float":
            return float(node.value)
        if name == "ID":
            return node.value
        return int(node.value)
    if isinstance(node, FloatValueNode):
        return float(node.value)
    if isinstance(node, StringValueNode):
        return node.value
    if isinstance(node, BooleanValueNode):
        return node.value
    if isinstance(node, EnumValueNode):
        return node.value
    raise AssertionError(f"model cannot coerce {node!r} to {t}")


def coerce_variables(schema, operation, provided):
    out = {}
    for vd in operation.variable_definitions or ():
        name = vd.variable.name.value
        t = type_from_ast(schema, vd.type)
        if name in provided:
            out[name] = coerce_runtime(t, provided[name])
        elif vd.default_value is not None:
            out[name] = coerce_literal(t, vd.default_value, {})
    return out


class ArgError(Exception):
    pass


def coerce_args(arg_defs, node, variables):
    """arg_defs: mapping name -> GraphQLArgument; node: FieldNode / DirectiveNode."""
    given = {a.name.value: a.value for a in (node.arguments or ())}
    out = {}
    for name, ad in arg_defs.items():
        t = ad.type
        key = getattr(ad, "out_name", None) or name  # the Python-side keyword of the argument
        vnode = given.get(name, UNSET)
        has_default = ad.ast_node is not None and ad.ast_node.default_value is not None
        if vnode is not UNSET and isinstance(vnode, VariableNode):
            vn = vnode.name.value
            if vn in variables:
                if variables[vn] is None and is_non_null_type(t):
                    raise ArgError(name)  # null for a non-null argument: field error
                out[key] = variables[vn]
                continue
            vnode = UNSET
        if vnode is UNSET:
            if has_default:
                out[key] = coerce_literal(t, ad.ast_node.default_value, {})
            elif is_non_null_type(t):
                raise ArgError(name)
            continue
        try:
            out[key] = coerce_literal(t, vnode, variables)
        except InvalidLiteral:
            raise ArgError(name) from None
    return out


def directive_if(node, dname, variables, default=None):
    for d in node.directives or ():
        if d.name.value == dname:
            for a in d.arguments or ():
                if a.name.value == "if":
                    if isinstance(a.value, VariableNode):
                        return variables.get(a.value.name.value)
                    return a.value.value
            return default
    return None


# --- the executor model ------------------------------------------------------------------


class Model:
    def __init__(self, schema, document, data, planner, type_mode):
        self.schema = schema
        self.document = document
        self.data_fn = data
        self.planner = planner
        self.type_mode = type_mode
        self.fragments = {
            d.name.value: d for d in document.definitions
            if isinstance(d, FragmentDefinitionNode)
        }
        self.ops = [d for d in document.definitions if isinstance(d, OperationDefinitionNode)]

    def operation(self, opname):
        if opname is None:
            assert len(self.ops) == 1
            return self.ops[0]
        return next(o for o in self.ops if o.name and o.name.value == opname)

    def execute(self, opname, provided_vars, root_obj, propagate=None):
        op = self.operation(opname)
        if propagate is None:
            propagate = not any(
                d.name.value == "experimental_disableErrorPropagation"
                for d in op.directives or ()
            )
        self.propagate = propagate
        self.variables = coerce_variables(self.schema, op, provided_vars)
        self.E = []
        self.pos_type = {}
        self.args_at = {}
        self.order = []  # field positions in evaluation (document) order
        self.root_of = {}  # position -> index of root field (mutation seriality)
        self.partial = {}  # list position whose source fails -> items completed before the failure
        self.no_invoke = set()
        self.default_paths = set()  # positions served by the default resolver
        root_type = self.schema.get_root_type(op.operation)
        fields = self.collect(root_type, [op.selection_set])
        self._root_index = None
        try:
            data = self.exec_selection(root_type, root_obj, (), fields, top=True)
        except Propagate:
            data = None
        res = ModelResult(data, self.E, self.pos_type, self.args_at, propagate,
                          self.order, self.root_of, self.variables)
        res.partial = self.partial
        res.no_invoke = self.no_invoke
        res.default_paths = self.default_paths
        return res

    # CollectFields with one visited set over the merged selection sets
    def collect(self, obj_type, selection_sets):
        out = {}
        visited = set()
        for ss in selection_sets:
            self._collect(obj_type, ss, visited, out)
        return out

    def _include(self, node):
        if directive_if(node, "skip", self.variables) is True:
            return False
        if directive_if(node, "include", self.variables) is False:
            return False
        return True

    def _applies(self, cond_node, obj_type):
        if cond_node is None:
            return True
        cond = self.schema.get_type(cond_node.name.value)
        if cond is obj_type:
            return True
        if is_abstract_type(cond):
            return obj_type in self.schema.get_possible_types(cond)
        return False

    def _collect(self, obj_type, ss, visited, out):
        for sel in ss.selections:
            if not self._include(sel):
                continue
            if isinstance(sel, FieldNode):
                key = sel.alias.value if sel.alias else sel.name.value
                out.setdefault(key, []).append(sel)
            elif isinstance(sel, FragmentSpreadNode):
                name = sel.name.value
                if name in visited:
                    continue
                visited.add(name)
                frag = self.fragments[name]
                if not self._applies(frag.type_condition, obj_type):
                    continue
                self._collect(obj_type, frag.selection_set, visited, out)
            elif isinstance(sel, InlineFragmentNode):
                if not self._applies(sel.type_condition, obj_type):
                    continue
                self._collect(obj_type, sel.selection_set, visited, out)

    def exec_selection(self, obj_type, obj, path, fields, top=False):
        result = {}
        pending = None
        for i, (key, nodes) in enumerate(fields.items()):
            if top:
                self._root_index = i
            fname = nodes[0].name.value
            if fname == "__typename":
                result[key] = obj_type.name
                continue
            fdef = obj_type.fields[fname]
            try:
                result[key] = self.exec_field(obj_type, obj, path + (key,), fdef, nodes)
            except Propagate as p:
                pending = pending or p
                result[key] = None
        if pending is not None:
            raise pending
        return result

    def exec_field(self, obj_type, obj, path, fdef, nodes):
        t = fdef.type
        self.root_of[path] = self._root_index
        if nodes[0].name.value in DEFAULT_RESOLVED:
            # no resolver of ours: the value is whatever the source mapping holds under the
            # field name (absent = null), no arguments, nothing to invoke
            self.no_invoke.add(path)
            self.default_paths.add(path)
            _kind, value = self.data_fn.default_entry(t, obj["__oid"], nodes[0].name.value)
            return self.complete_position(t, value, path, nodes)
        fp = self.planner.field(path, t)
        try:
            args = coerce_args(fdef.args, nodes[0], self.variables)
        except ArgError:
            # argument coercion fails: field error, resolver is never called
            self.no_invoke.add(path)
            return self.complete_position(t, FaultValue("args", None), path, nodes)
        self.args_at[path] = args
        self.order.append(path)
        fname = nodes[0].name.value
        if fp.fault in ("raise", "ret_exc"):
            value = FaultValue(fp.fault, fp.msg)
        elif fp.fault == "null":
            value = None
        elif fp.fault == "bad_leaf":
            value = FaultValue("bad_leaf", None)
        elif fp.fault == "not_iterable":
            value = FaultValue("not_iterable", None)
        else:
            value = self.data_fn.value(t, obj["__oid"], fname, args)
        return self.complete_position(t, value, path, nodes)

    def complete_position(self, t, value, path, nodes):
        self.pos_type[path] = t
        self.root_of.setdefault(path, self._root_index)
        try:
            return self.complete(t, value, path, nodes)
        except Fail as f:
            self.E.append(f.rec)
            if self.propagate and is_non_null_type(t):
                raise Propagate from None
            return None
        except Propagate:
            if is_non_null_type(t):
                raise
            return None

    def complete(self, t, value, path, nodes):
        if isinstance(value, FaultValue):
            raise Fail(ErrRec(path, value.rec_kind, value.msg))
        if is_non_null_type(t):
            r = self.complete(t.of_type, value, path, nodes)
            if r is None:
                raise Fail(ErrRec(path, "nonnull"))
            return r
        if value is None:
            return None
        if is_list_type(t):
            return self.complete_list(t, value, path, nodes)
        if is_leaf_type(t):
            return serialize_leaf(t.name, value)
        if is_abstract_type(t):
            concrete = value["__t"]
            ap = self.planner.abstract(path, t.name, concrete, self.type_mode)
            if self.type_mode == "is_type_of":
                # the default type resolver may ask every possible type
                for pt in self.schema.get_possible_types(t):
                    self.planner.istype(path, pt.name, pt.name == concrete)
            if ap.fault:
                raise Fail(ErrRec(path, "abstract:" + ap.fault, ap.msg))
            return self.complete_object(self.schema.get_type(concrete), value, path, nodes)
        return self.complete_object(t, value, path, nodes)

    def complete_object(self, t, value, path, nodes):
        if self.type_mode == "is_type_of":
            ip = self.planner.istype(path, t.name, True)
            if ip.fault:
                raise Fail(ErrRec(path, "istype:" + ip.fault, ip.msg))
        fields = self.collect(t, [n.selection_set for n in nodes if n.selection_set])
        return self.exec_selection(t, value, path, fields)

    def complete_list(self, t, value, path, nodes):
        item_t = t.of_type
        lp = self.planner.list(path, len(value), item_t)
        if lp.fail_after is not None:
            # items before the failure are still produced (and may be invoked) by the
            # real executor, but the whole list position fails
            before = []
            for i in range(min(lp.fail_after, len(value))):
                try:
                    before.append(self._plan_item(item_t, value[i], path + (i,), nodes,
                                                  evaluate=True))
                except Propagate:
                    before.append(None)
            self.partial[path] = before
            raise Fail(ErrRec(path, "src", lp.msg))
        out = []
        pending = None
        for i, item in enumerate(value):
            try:
                out.append(self._plan_item(item_t, item, path + (i,), nodes, evaluate=True))
            except Propagate as p:
                pending = pending or p
                out.append(None)
        if pending is not None:
            raise pending
        return out

    def _plan_item(self, item_t, item, ipath, nodes, evaluate):
        ip = self.planner.item(ipath, item_t)
        if ip.fault in ("raise", "ret_exc"):
            item = FaultValue(ip.fault, ip.msg)
        elif ip.fault == "null":
            item = None
        elif ip.fault == "bad_leaf":
            item = FaultValue("bad_leaf", None)
        try:
            return self.complete_position(item_t, item, ipath, nodes)
        except Propagate:
            raise


class ModelResult:
    def __init__(self, data, errors, pos_type, args_at, propagate, order, root_of, variables):
        self.data = data
        self.errors = errors
        self.pos_type = pos_type
        self.args_at = args_at
        self.propagate = propagate
        self.order = order
        self.root_of = root_of
        self.variables = variables

    def nullpos(self, path):
        """Position nulled by an error originating at `path` (None = ROOT/data null)."""
        p = tuple(path)
        if not self.propagate:
            return p
        while True:
            t = self.pos_type.get(p)
            if t is None:
                return "?"  # position the model never visited
            if not is_non_null_type(t):
                return p
            p = p[:-1]
            if not p:
                return None

    def expected_nulled(self):
        return outermost({self.nullpos(e.path) for e in self.errors})


def outermost(positions):
    if None in positions:
        return {None}
    out = set()
    for p in positions:
        if p == "?":
            out.add(p)
            continue
        if not any(p[:k] in positions for k in range(1, len(p))):
            out.add(p)
    return out
