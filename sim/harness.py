"""Harness side of W1: resolvers, type resolvers, list sources, request contexts.

Everything the library awaits that comes from here is an External completed
only by the controller (or an immediately-finishing coroutine).
"""
from __future__ import annotations

import asyncio
import math

from graphql import GraphQLError
from graphql.type import (
    get_named_type,
    is_abstract_type,
    is_leaf_type,
    is_list_type,
    is_non_null_type,
)

from .model import BAD

# Values no coercion of the named leaf type accepts: a field error by the specification.
# Boundary cases (one past the Int range, non-finite floats, a float for an ID ...) sit next
# to the out-of-domain object, selected by a draw the plan makes anyway.
_BAD_BY_TYPE = {
    "Int": (BAD, 2 ** 31, -(2 ** 31) - 1, 1.5, "x", math.inf, 10 ** 20),
    "Float": (BAD, math.inf, -math.inf, math.nan, "x"),
    "String": (BAD, {"a": 1}, [1]),
    "Boolean": (BAD, "x", math.nan),
    "ID": (BAD, 1.5, {"a": 1}, True),
    "Color": (BAD, "PURPLE", 7),
}


def bad_value(t, k):
    vs = _BAD_BY_TYPE.get(get_named_type(t).name, (BAD,))
    return vs[k % len(vs)]
from .plan import EXC_KINDS
from .world import ABSTRACTS, DEFAULT_RESOLVED, OBJECTS, canon


class EmptyStrError(Exception):
    def __str__(self):
        return ""


_SHARED = {"err": None}


def make_exc(kind_index, msg, path, sync=False):
    kind = EXC_KINDS[kind_index % len(EXC_KINDS)]
    if kind == "StopIteration" and not sync:
        # cannot travel through coroutines, generators or futures unchanged
        kind = "LookupError"
    if kind == "EmptyStr":
        return EmptyStrError(msg)
    if kind == "SharedGraphQLError":
        # the same instance wherever it is planned, across positions and requests of the unit
        return _SHARED["err"] if msg is None else GraphQLError(msg)
    if kind == "GraphQLError":
        return GraphQLError(msg)
    if kind == "GraphQLErrorOwnPath":
        return GraphQLError(msg, path=list(path))
    if kind == "TimeoutError":
        return asyncio.TimeoutError(msg)
    return {
        "RuntimeError": RuntimeError, "ValueError": ValueError, "KeyError": KeyError,
        "TypeError": TypeError, "MemoryError": MemoryError, "RecursionError": RecursionError,
        "StopIteration": StopIteration, "LookupError": LookupError,
    }[kind](msg)


def pstr(path):
    return "/" + "/".join(map(str, path))


NOT_POSSIBLE = {"Node": "D", "Named": "C", "U": "A"}


class Source:
    """Book-keeping shared by all harness list sources (for the close oracle)."""

    def __init__(self, req, path, kind):
        self.req = req
        self.path = path
        self.kind = kind
        self.started = False
        self.pulls = 0
        self.exhausted = False
        self.self_failed = False
        self.aclose_calls = 0
        self.aclose_done = 0
        self.finalized = False  # async generators: finally block ran
        self.last_anext = None  # completed | cancelled | pending
        self.in_anext = 0
        self.in_aclose = 0
        req.sources.append(self)


class Request:
    """One request in flight: plan lookups, invocation log, sources."""

    def __init__(self, sim, idx, world, planner, force_sync=False, root=None):
        self.sim = sim
        self.idx = idx
        self.world = world
        self.planner = planner
        self.force_sync = force_sync
        self.invocations = {}
        self.args_seen = {}
        self.unplanned = []
        self.sources = []
        self.active = 0  # harness coroutines between enter and exit marks
        self.slow_cancels = 0
        self.root = root

    def log(self, *f):
        if self.sim is not None:
            self.sim.log(*f)

    # --- externals ---------------------------------------------------------------------
    def ext(self, label, outcome, hanging=False, kind="res", pos=None):
        e = self.sim.external(f"{kind}:{self.idx}:{label}", kind, outcome, hanging, self.idx)
        e.pos = pos
        return e

    # --- value delivery ----------------------------------------------------------------
    def deliver_value(self, t, v, path):
        if is_non_null_type(t):
            t = t.of_type
        if v is None:
            return None
        if is_list_type(t):
            return self.deliver_list(t.of_type, v, path)
        if is_leaf_type(t):
            return v
        # composite
        obj = dict(v)
        obj["__path"] = path
        ot = self.world.schema.type_map.get(v.get("__t"))
        for fname in DEFAULT_RESOLVED:
            fdef = ot.fields.get(fname) if ot is not None else None
            if fdef is not None:
                kind, dv = self.world.data.default_entry(fdef.type, v["__oid"], fname)
                if kind != "absent":
                    obj[fname] = dv
        mode = self.world.type_mode
        if mode == "typename":
            tn = v["__t"]
            if is_abstract_type(t):
                ap = self.planner.abstr.get(path)
                if ap is None:
                    self.unplanned.append(("abstract", path))
                elif ap.fault == "none":
                    tn = None
                elif ap.fault == "unknown":
                    tn = "Nope"
                elif ap.fault == "nonobject":
                    tn = "Color"
                elif ap.fault == "notpossible":
                    tn = NOT_POSSIBLE[t.name]
            if tn is not None:
                obj["__typename"] = tn
        return obj

    def item_value(self, item_t, item, ipath):
        """Delivered form of one list item (may be an awaitable)."""
        ip = self.planner.items.get(ipath)
        if ip is None:
            self.unplanned.append(("item", ipath))
            return self.deliver_value(item_t, item, ipath)
        fault = ip.fault
        if fault == "null":
            outcome = ("value", None)
        elif fault == "ret_exc":
            outcome = ("value", make_exc(ip.exc, ip.msg, ipath))
        elif fault == "raise":
            outcome = ("raise", make_exc(ip.exc, ip.msg, ipath))
        elif fault == "bad_leaf":
            outcome = ("value", bad_value(item_t, ip.exc))
        else:
            outcome = ("lazy", lambda: self.deliver_value(item_t, item, ipath))
        if ip.delivery == "sync" or self.force_sync:
            if outcome[0] == "lazy":
                return outcome[1]()
            return outcome[1]  # for "raise": an Exception instance fails the same position
        if ip.delivery == "slowc":
            return self._coro_slow(outcome, "item" + pstr(ipath), False, ipath)
        if ip.delivery == "settled":
            return self._settled(outcome)
        return self.ext("item" + pstr(ipath), outcome, kind="item", pos=ipath).fut

    def deliver_list(self, item_t, values, path):
        lp = self.planner.lists.get(path)
        if lp is None:
            self.unplanned.append(("list", path))
            return [self.item_value(item_t, v, path + (i,)) for i, v in enumerate(values)]
        kind = lp.kind
        if self.force_sync and kind in ("aiter", "agen", "aiter_noclose"):
            kind = "gen"
        if kind == "list":
            return [self.item_value(item_t, v, path + (i,)) for i, v in enumerate(values)]
        if kind == "tuple":
            return tuple(self.item_value(item_t, v, path + (i,)) for i, v in enumerate(values))
        if kind == "gen":
            return self._sync_gen(item_t, values, path, lp)
        if kind == "agen":
            return self._agen(item_t, values, path, lp)
        return ClassAsyncIter(self, item_t, values, path, lp)

    def _sync_gen(self, item_t, values, path, lp):
        req = self

        def gen():
            for i, v in enumerate(values):
                if lp.fail_after is not None and i == lp.fail_after:
                    raise make_exc(lp.exc, lp.msg, path)
                yield req.item_value(item_t, v, path + (i,))
            if lp.fail_after is not None and lp.fail_after >= len(values):
                raise make_exc(lp.exc, lp.msg, path)

        return gen()

    def _agen(self, item_t, values, path, lp):
        req = self
        src = Source(self, path, "agen")

        async def agen():
            src.started = True
            try:
                i = 0
                while True:
                    src.pulls += 1
                    src.in_anext += 1
                    src.last_anext = "pending"
                    try:
                        if i < len(lp.anext) and lp.anext[i]:
                            try:
                                await req.ext(f"anext{pstr(path)}#{i}", ("value", None),
                                              kind="anext", pos=path).fut
                            except asyncio.CancelledError:
                                src.last_anext = "cancelled"
                                raise
                        if lp.fail_after is not None and i == min(lp.fail_after, len(values)):
                            src.self_failed = True
                            src.last_anext = "completed"
                            raise make_exc(lp.exc, lp.msg, path)
                        if i >= len(values):
                            src.exhausted = True
                            src.last_anext = "completed"
                            return
                        item = req.item_value(item_t, values[i], path + (i,))
                        src.last_anext = "completed"
                    finally:
                        src.in_anext -= 1
                    yield item
                    i += 1
            finally:
                src.in_aclose += 1
                try:
                    if not (src.exhausted or src.self_failed):
                        src.aclose_calls += 1
                        if lp.close == "slow":
                            await req.ext(f"aclose{pstr(path)}", ("value", None),
                                          kind="aclose", pos=path).fut
                finally:
                    src.in_aclose -= 1
                    src.finalized = True
                    src.aclose_done += 1

        return agen()

    # --- the field resolver -------------------------------------------------------------
    def resolve(self, source, info, args):
        path = tuple(info.path.as_list())
        n = self.invocations.get(path, 0)
        self.invocations[path] = n + 1
        self.args_seen.setdefault(path, []).append(args)
        self.log("inv", self.idx, pstr(path), canon(args))
        fp = self.planner.fields.get(path)
        t = info.return_type
        fname = info.field_name
        if fp is None:
            self.unplanned.append(("field", path))
            v = self.world.data.value(t, source["__oid"], fname, args)
            return self.deliver_value(t, v, path)
        fault = fp.fault
        if fault == "raise":
            outcome = ("raise", make_exc(fp.exc, fp.msg, path))
        elif fault == "ret_exc":
            outcome = ("value", make_exc(fp.exc, fp.msg, path))
        elif fault == "null":
            outcome = ("value", None)
        elif fault == "bad_leaf":
            outcome = ("value", bad_value(t, fp.exc))
        elif fault == "not_iterable":
            outcome = ("value", 12345)
        else:
            v = self.world.data.value(t, source["__oid"], fname, args)
            # built at delivery time: awaitable items / sources inside must not exist earlier
            outcome = ("lazy", lambda: self.deliver_value(t, v, path))
        delivery = "sync" if self.force_sync else fp.delivery
        hanging = fault == "hang"
        if delivery == "sync" and fault in ("raise", "ret_exc"):
            outcome = (outcome[0], make_exc(fp.exc, fp.msg, path, sync=True))
        if delivery == "sync":
            if outcome[0] == "raise":
                raise outcome[1]
            if outcome[0] == "lazy":
                return outcome[1]()
            return outcome[1]
        label = pstr(path) + (f"~{n}" if n else "")
        if delivery == "future":
            return self.ext(label, outcome, hanging, pos=path).fut
        if delivery == "coro0":
            return self._coro0(outcome, label)
        if delivery == "settled":
            if not hanging:
                return self._settled(outcome)
            return self.ext(label, outcome, hanging, pos=path).fut
        if delivery == "slowc":
            return self._coro_slow(outcome, label, hanging, path)
        k = 1 if delivery == "coro1" else 2
        return self._coro(outcome, label, k, hanging, path)

    def _settled(self, outcome):
        """A future that is already settled when the library receives it (a data loader
        serving from its cache; a task that finished, or failed, earlier)."""
        fut = self.sim.loop.create_future()
        self.sim.count("settled_future_delivered")
        if outcome[0] == "raise":
            fut.set_exception(outcome[1])
        elif outcome[0] == "lazy":
            try:
                fut.set_result(outcome[1]())
            except Exception as exc:  # noqa: BLE001
                fut.set_exception(exc)
        else:
            fut.set_result(outcome[1])
        return fut

    async def _coro0(self, outcome, label):
        self.active += 1
        try:
            if outcome[0] == "raise":
                raise outcome[1]
            if outcome[0] == "lazy":
                return outcome[1]()
            return outcome[1]
        finally:
            self.active -= 1

    async def _coro(self, outcome, label, k, hanging, path=None):
        self.active += 1
        try:
            for j in range(k - 1):
                await self.ext(f"{label}.{j}", ("value", None), pos=path).fut
            return await self.ext(f"{label}.{k - 1}", outcome, hanging, pos=path).fut
        finally:
            self.active -= 1

    async def _coro_slow(self, outcome, label, hanging, path):
        """A resolver whose cancellation takes time: cleanup awaits another external."""
        self.active += 1
        try:
            try:
                return await self.ext(f"{label}.0", outcome, hanging, pos=path).fut
            except asyncio.CancelledError:
                self.slow_cancels += 1
                self.log("cancel-begin", self.idx, pstr(path))
                await self.ext(f"{label}.cleanup", ("value", None), kind="cleanup", pos=path).fut
                self.log("cancel-end", self.idx, pstr(path))
                raise
        finally:
            self.active -= 1

    # --- type resolution -------------------------------------------------------------------
    def resolve_type(self, value, info, abstract_type):
        path = value["__path"]
        ap = self.planner.abstr.get(path)
        self.log("rt", self.idx, pstr(path))
        if ap is None:
            self.unplanned.append(("abstract", path))
            return value["__t"]
        fault = ap.fault
        if fault == "raise":
            outcome = ("raise", make_exc(ap.exc, ap.msg, path))
        elif fault == "none":
            outcome = ("value", None)
        elif fault == "unknown":
            outcome = ("value", "Nope")
        elif fault == "nonobject":
            outcome = ("value", "Color")
        elif fault == "notpossible":
            outcome = ("value", NOT_POSSIBLE[abstract_type.name])
        elif fault == "nonstring":
            outcome = ("value", 42)
        else:
            outcome = ("value", value["__t"])
        if ap.delivery == "sync" or self.force_sync:
            if outcome[0] == "raise":
                raise outcome[1]
            return outcome[1]
        return self.ext("rt" + pstr(path), outcome, kind="rt", pos=path).fut

    def is_type_of(self, tname, value, info):
        path = value["__path"]
        ip = self.planner.istypes.get((path, tname))
        self.log("ito", self.idx, pstr(path), tname)
        truth = value["__t"] == tname
        if ip is None:
            self.unplanned.append(("istype", path, tname))
            return truth
        if ip.fault == "raise":
            outcome = ("raise", make_exc(ip.exc, ip.msg, path))
        elif ip.fault == "false":
            outcome = ("value", False)
        else:
            outcome = ("value", truth)
        if ip.delivery == "sync" or self.force_sync:
            if outcome[0] == "raise":
                raise outcome[1]
            return outcome[1]
        return self.ext(f"ito{pstr(path)}@{tname}", outcome, kind="ito", pos=path).fut


class ClassAsyncIter:
    """Class-based async iterator, with or without aclose()."""

    def __init__(self, req, item_t, values, path, lp):
        self.req = req
        self.item_t = item_t
        self.values = values
        self.path = path
        self.lp = lp
        self.i = 0
        self.src = Source(req, path, "aiter" if lp.has_aclose else "aiter_noclose")
        self.closed = False
        if lp.has_aclose:
            self.aclose = self._aclose

    def __aiter__(self):
        return self

    async def __anext__(self):
        src, lp, req = self.src, self.lp, self.req
        src.started = True
        src.pulls += 1
        src.in_anext += 1
        src.last_anext = "pending"
        req.active += 1
        try:
            i = self.i
            if self.closed:
                src.last_anext = "completed"
                raise StopAsyncIteration
            if i < len(lp.anext) and lp.anext[i]:
                try:
                    await req.ext(f"anext{pstr(self.path)}#{i}", ("value", None), kind="anext",
                                  pos=self.path).fut
                except asyncio.CancelledError:
                    src.last_anext = "cancelled"
                    raise
            src.last_anext = "completed"
            if lp.fail_after is not None and i == min(lp.fail_after, len(self.values)):
                src.self_failed = True
                raise make_exc(lp.exc, lp.msg, self.path)
            if i >= len(self.values):
                src.exhausted = True
                raise StopAsyncIteration
            self.i = i + 1
            return req.item_value(self.item_t, self.values[i], self.path + (i,))
        finally:
            src.in_anext -= 1
            req.active -= 1

    async def _aclose(self):
        src, lp, req = self.src, self.lp, self.req
        src.aclose_calls += 1
        src.in_aclose += 1
        req.active += 1
        try:
            self.closed = True
            if lp.close == "slow":
                await req.ext(f"aclose{pstr(self.path)}", ("value", None), kind="aclose",
                              pos=self.path).fut
            elif lp.close == "raises":
                raise RuntimeError("aclose failed")
        finally:
            src.in_aclose -= 1
            src.aclose_done += 1
            src.finalized = True
            req.active -= 1


# --- attaching the harness to a schema --------------------------------------------------------


def field_resolver(source, info, **args):
    return info.context.resolve(source, info, args)


def attach(schema, type_mode, reset_shared=True):
    """Attach resolvers / type resolvers by attribute assignment (fresh schema per run)."""
    if reset_shared:
        _SHARED["err"] = GraphQLError("shared failure")  # one instance per unit
    for tname in ("Query", "Mutation", "Subscription") + OBJECTS:
        t = schema.type_map[tname]
        for fname, f in t.fields.items():
            if fname not in DEFAULT_RESOLVED:
                f.resolve = field_resolver
    if type_mode == "resolve_type":
        for an in ABSTRACTS:
            schema.type_map[an].resolve_type = (
                lambda value, info, abstract_type: info.context.resolve_type(
                    value, info, abstract_type)
            )
    elif type_mode == "is_type_of":
        for tn in OBJECTS:
            schema.type_map[tn].is_type_of = (
                lambda value, info, tn=tn: info.context.is_type_of(tn, value, info)
            )
