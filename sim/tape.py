"""Choice tape: the single source of every random decision of a run.

generate mode: values are drawn from random.Random(seed) and recorded.
replay mode:   values are read back (exhausted tape => 0, out of range => clamped).
0 is always the simplest choice (sync, no fault, shortest, first pending, ...).
"""
from __future__ import annotations

import hashlib
import random


def mix(*parts) -> int:
    """Stable 64-bit hash of the given parts (never Python's hash())."""
    h = hashlib.blake2b(repr(parts).encode(), digest_size=8)
    return int.from_bytes(h.digest(), "big")


class Tape:
    __slots__ = ("values", "pos", "rng", "replay", "overrun", "trace")

    def __init__(self, seed=None, values=None):
        if values is not None:
            self.values = list(values)
            self.replay = True
            self.rng = None
        else:
            self.values = []
            self.replay = False
            self.rng = random.Random(seed if isinstance(seed, int) else mix(seed))
        self.pos = 0
        self.overrun = 0
        self.trace = None  # when a list: (label, n, value) of every draw (for enumeration)

    def draw(self, n: int, label: str = "") -> int:
        """Integer in [0, n)."""
        v = self._draw(n, label)
        if self.trace is not None:
            self.trace.append((label, n, v))
        return v

    def _draw(self, n: int, label: str = "") -> int:
        if n <= 1:
            v = 0
            # still consume a slot so that shrinking by zeroing keeps alignment
            if self.replay:
                if self.pos < len(self.values):
                    self.pos += 1
                else:
                    self.overrun += 1
            else:
                self.values.append(0)
                self.pos += 1
            return v
        if self.replay:
            if self.pos < len(self.values):
                v = self.values[self.pos]
                self.pos += 1
                if v >= n:
                    v = n - 1
                elif v < 0:
                    v = 0
            else:
                self.overrun += 1
                v = 0
            return v
        v = self.rng.randrange(n)
        self.values.append(v)
        self.pos += 1
        return v

    def chance(self, num: int, den: int, label: str = "") -> bool:
        """True with probability num/den; False (0) is the simple choice."""
        # map so that small tape values mean False
        return self.draw(den, label) >= den - num

    def weighted(self, weights, label: str = "") -> int:
        """Index drawn with the given integer weights; index 0 = simplest."""
        total = sum(weights)
        v = self.draw(total, label)
        acc = 0
        for i, w in enumerate(weights):
            acc += w
            if v < acc:
                return i
        return len(weights) - 1

    def pick(self, seq, label: str = ""):
        return seq[self.draw(len(seq), label)]

    def used(self):
        """The values actually consumed (what a replay file stores)."""
        if self.replay:
            return self.values[: self.pos]
        return list(self.values)


class ScriptTape(Tape):
    """Enumeration tape: a fixed prefix, then every draw labelled ``label`` takes the next
    scripted pick (0 when the script is exhausted) and every other draw is 0. The values are
    recorded as in generate mode, so ``Tape(values=t.used())`` replays the run exactly."""

    __slots__ = ("prefix", "script", "spos", "label")

    def __init__(self, prefix, script, label="idle_pick"):
        Tape.__init__(self, seed=0)
        self.rng = None
        self.prefix = list(prefix)
        self.script = list(script)
        self.spos = 0
        self.label = label
        self.trace = []

    def _draw(self, n, label=""):
        if self.pos < len(self.prefix):
            v = self.prefix[self.pos]
        elif label == self.label:
            v = self.script[self.spos] if self.spos < len(self.script) else 0
            self.spos += 1
        else:
            v = 0
        v = 0 if n <= 1 else max(0, min(v, n - 1))
        self.values.append(v)
        self.pos += 1
        return v


def next_script(trace, label="idle_pick"):
    """Odometer over the branching observed in a run: the next script in lexicographic order,
    or None when every sequence below the observed branching has been visited."""
    ns = [n for (lab, n, _v) in trace if lab == label]
    got = [v for (lab, _n, v) in trace if lab == label]
    k = len(ns) - 1
    while k >= 0 and got[k] + 1 >= max(ns[k], 1):
        k -= 1
    if k < 0:
        return None
    return got[:k] + [got[k] + 1]
