"""Oracle-liveness self-test: `./check selftest-mutants [name-filter]`.

Every patch in selftest/mutants/ is a hand-written change that makes one oracle's condition
true (most of them fail the repository's own suite, which is why they are not in seeded/).
Each is applied to a scratch copy of /repo's HEAD, and the check named in EXPECT is run on a
scratch copy of /verif against it (tools/scratch_mutant.sh; /repo itself is never touched).
The self-test fails when an expected oracle does not fire: a dead oracle is a broken check.
Patches marked None are changes that turned out not to break any property; they document
that the checks stay quiet on them.
"""
from __future__ import annotations

import glob
import os
import subprocess
import sys

ROOT = os.path.dirname(os.path.dirname(os.path.abspath(__file__)))

# name -> (check, units, substring expected in the reported violations or None)
EXPECT = {
    "h1-map-without-aclosing": ("C06", 1600, "source_not_closed"),
    "h2-cleanup-without-cancel-incremental-work": ("C06", 1600, "orphan_task"),
    "h3-parked-producer-not-released": ("C06", 1600, None),
    "h4-per-event-shared-collected-errors": ("C07", 1600, "unattributable_error"),
    "h6-no-revisit-of-deferred-fragment": ("C04", 1600, None),
    "h7-best-id-tie": ("C05", 1600, None),
    "h9-memo-key-without-type": ("C02", 600, "data_mismatch"),
    "h10-misassociated-awaited-results": ("C03", 2000, "data_mismatch"),
    "h11-no-filter-under-nulled-positions": ("C04", 1600, "spurious_withholding"),
    "h12-only-first-group-decremented": ("C05", 1600, "no_termination"),
    "h13-id-reused": ("C05", 800, "id_reused_or_announced_twice"),
    "h14-nested-group-promoted-at-once": ("C05", 800, "nested_announced_while_parent_pending"),
    "h15-hasnext-always-true": ("C05", 800, "stream_ended_without_hasNext_false"),
    "h16-defer-value-reported-twice": ("C04", 800, "value_delivered_twice"),
    "h17-source-pulled-after-end": ("C07", 800, "source_pulled_after_end"),
}


def main(argv):
    flt = argv[0] if argv else ""
    bad = 0
    for path in sorted(glob.glob(os.path.join(ROOT, "selftest", "mutants", "*.diff"))):
        name = os.path.basename(path)[:-5]
        if flt and flt not in name:
            continue
        if name not in EXPECT:
            print(f"{name}: no expectation recorded")
            bad += 1
            continue
        check, units, want = EXPECT[name]
        r = subprocess.run([os.path.join(ROOT, "tools", "scratch_mutant.sh"), path, check,
                            str(units)], capture_output=True, text=True)
        out = r.stdout
        fired = sorted({ln.split("oracle=")[1].split(" ")[0] for ln in out.splitlines()
                        if "oracle=" in ln})
        if "patch does not apply" in out:
            print(f"{name}: patch no longer applies to HEAD")
            bad += 1
        elif want is None:
            ok = "exit=0" in out
            print(f"{name}: {check} quiet as expected" if ok
                  else f"{name}: {check} UNEXPECTEDLY fired {fired}")
        elif want in out:
            print(f"{name}: {check} fired {want} (all: {fired})")
        else:
            print(f"{name}: {check} did NOT fire {want}; fired {fired}")
            bad += 1
    return 1 if bad else 0
