"""Determinism self-test: the digest of a unit must be a function of (seed, code) only.

For every claimed property a sample of unit indices is run (a) in this process in ascending
order, (b) in this process in descending order (different heap / history), (c) in a fresh
interpreter with another PYTHONHASHSEED.  Any digest mismatch is exit code 3 (HARNESS-ERROR).
"""
from __future__ import annotations

import json
import os
import subprocess
import sys

ROOT = os.path.dirname(os.path.dirname(os.path.abspath(__file__)))


def digests(prop, indices, seed=0):
    sys.path.insert(0, ROOT)
    from checks import runner

    runner.setup_path()
    mod = runner.load(prop)
    out = {}
    for i in indices:
        _vs, info = mod.run_unit(seed=(prop, seed, i), tier="quick")
        out[i] = info["digest"]
    return out


def main(argv):
    props = [a for a in argv if a.startswith("C")] or ["C02", "C03", "C04", "C05", "C06", "C07"]
    n = 120
    for a in argv:
        if a.startswith("--n="):
            n = int(a[4:])
    if "--child" in argv:
        prop = props[0]
        idx = json.loads(sys.stdin.read())
        print(json.dumps(digests(prop, idx)))
        return 0
    bad = 0
    for prop in props:
        idx = list(range(0, n * 7, 7))
        a = digests(prop, idx)
        b = digests(prop, list(reversed(idx)))
        env = dict(os.environ, PYTHONHASHSEED="12345")
        p = subprocess.run([sys.executable, "-c",
                            "import sys; sys.path.insert(0, %r); from selftest import determinism;"
                            "sys.exit(determinism.main(sys.argv[1:]))" % ROOT, prop, "--child"],
                           input=json.dumps(idx[::-1][::2]), text=True, capture_output=True, env=env,
                           timeout=1200)
        try:
            c = {int(k): v for k, v in json.loads(p.stdout.strip().splitlines()[-1]).items()}
        except Exception:  # noqa: BLE001
            print(f"HARNESS-ERROR {prop}: child failed: {p.stderr[-400:]}")
            bad += 1
            continue
        mism_b = [i for i in idx if a[i] != b[i]]
        mism_c = [i for i in c if a[i] != c[i]]
        print(f"{prop}: {len(idx)} units; same process other order: {len(mism_b)} mismatches; "
              f"fresh interpreter other hash seed: {len(mism_c)} mismatches of {len(c)}")
        if mism_b or mism_c:
            print(f"HARNESS-ERROR {prop}: non-deterministic units {sorted(set(mism_b + mism_c))[:10]}")
            bad += 1
    return 3 if bad else 0
