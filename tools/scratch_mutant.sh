#!/bin/sh
# usage: scratch_mutant.sh <patch.diff> <PROP> [units]
# Tries a seeded change without touching /repo: copies /repo's HEAD and /verif's working files
# to a scratch directory, applies the patch there and runs the check of the copy against it.
P="$(realpath "$1")"; PROP="$2"; U="${3:-}"
S=$(mktemp -d /tmp/vs.XXXXXX) || exit 2
trap 'rm -rf "$S"' EXIT
mkdir -p "$S/repo" "$S/verif"
git -C /repo archive HEAD src | tar -x -C "$S/repo" || exit 2
(cd /verif && tar -c --exclude=./replays --exclude=./.git --exclude=./evidence --exclude=./seeded .) | tar -x -C "$S/verif"
cp /verif/known_findings.json "$S/verif/"
(cd "$S/repo" && git init -q . && git apply "$P") || { echo "patch does not apply"; exit 2; }
export VERIF_REPO_SRC="$S/repo/src"
cd "$S/verif" || exit 2
if [ -n "$U" ]; then ./check "$PROP" --units "$U" > "$S/out" 2>&1; else ./check "$PROP" > "$S/out" 2>&1; fi
rc=$?
grep -c "^VIOLATION" "$S/out" | sed 's/^/violations=/'
grep "oracle=\|HARNESS\|units=" "$S/out" | head -8
echo "exit=$rc"
