#!/venv/bin/python
"""Tally violation fingerprints over N units (no minimisation). usage: tally.py PROP N"""
import sys, json, time, multiprocessing, collections
sys.path.insert(0,'/verif'); sys.path.insert(0,'/repo/src')
from checks import runner; runner.setup_path()
from concurrent.futures import ProcessPoolExecutor
prop=sys.argv[1]; N=int(sys.argv[2])
def work(idx):
    mod=runner.load(prop); out=[]
    for i in idx:
        vs,info=mod.run_unit(seed=(prop,0,i))
        for v in vs: out.append((i, v.oracle, json.dumps(v.fingerprint,sort_keys=True)))
    return out
chunks=[list(range(i,min(i+25,N))) for i in range(0,N,25)]
cnt=collections.Counter(); ex={}
with ProcessPoolExecutor(max_workers=16, mp_context=multiprocessing.get_context("fork")) as pool:
    for res in pool.map(work, chunks):
        for i,o,fp in res:
            cnt[(o,fp)]+=1; ex.setdefault((o,fp),i)
for (o,fp),n in sorted(cnt.items()): print(n, o, fp, "e.g. unit", ex[(o,fp)])
