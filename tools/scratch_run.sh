#!/bin/sh
# usage: scratch_run.sh <patch.diff|-> <command ...>
# Runs a command in a scratch copy of /verif against a scratch copy of /repo's HEAD with the
# patch applied ("-" = no patch). /repo is never touched.
P="$1"; shift
[ "$P" = "-" ] || P="$(realpath "$P")"
S=$(mktemp -d /tmp/vs.XXXXXX) || exit 2
trap 'rm -rf "$S"' EXIT
mkdir -p "$S/repo" "$S/verif"
git -C /repo archive HEAD src tests | tar -x -C "$S/repo" || exit 2
(cd /verif && tar -c --exclude=./replays --exclude=./.git --exclude=./evidence --exclude=./seeded .) | tar -x -C "$S/verif"
if [ "$P" != "-" ]; then (cd "$S/repo" && git init -q . && git apply "$P") || { echo "patch does not apply"; exit 2; }; fi
export VERIF_REPO_SRC="$S/repo/src" SCRATCH_REPO="$S/repo"
cd "$S/verif" || exit 2
"$@"
