#!/venv/bin/python
"""Summarise seeded/*/meta.json: which seeded changes are caught at the quick tier by the check
of their property, by a sibling check only, or not at all (as recorded by tools/matrix.py)."""
import glob, json, os
own, sib, none, na = [], [], [], []
for d in sorted(glob.glob("/verif/seeded/*")):
    n = os.path.basename(d)
    mp = d + "/meta.json"
    if not os.path.exists(mp):
        continue
    m = json.load(open(mp))
    prop = m.get("property") or m.get("breaks")
    det = m.get("detected_by") or {}
    if m.get("applies_to_current_tree") is False:
        na.append(n); continue
    hit = [c for c, v in det.items() if v.get("exit") == 1 and v.get("violations")]
    if prop in hit:
        own.append(n)
    elif hit:
        sib.append((n, hit))
    else:
        none.append(n)
print("caught by own check:", len(own))
print("caught by another check only:", sib)
print("not caught at quick:", none)
print("patch does not apply:", na)
