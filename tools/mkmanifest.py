import json,sys
claimed = sys.argv[1].split(',')
NA = {
 "C01": "pure function of the source text (quantifier: inputs only); no schedule, fault instant or history to simulate. Its resolver-exception clause is exercised as a fault kind under C02/C03 (escaped_exception oracle).",
 "C08": "print/parse round trip is a pure function of the text/AST; nothing to schedule or inject.",
 "C09": "lexer/ignored-token behaviour is a pure function of the source text.",
 "C10": "source-location arithmetic is a pure function of (text, offset).",
 "C11": "visitor traversal is a deterministic sequential walk; 'parallel' visitors are a synchronous fan-out in one call stack, not concurrency.",
 "C12": "validation is a pure function of (schema, document, rules) with a per-call context; no state shared between callers to put a history on.",
 "C13": "a forall-inputs implication between two pure functions (validate, synchronous execute); no schedule or fault dimension.",
 "C14": "overlapping-fields rule vs spec algorithm: pure differential over inputs.",
 "C15": "input coercion/validation agreement is pure over (type, value); the memoised default it mentions is exercised as history state under C02.",
 "C16": "leaf serialisation domains: pure over Python values.",
 "C17": "schema print/build round trip: pure algebra over schemas.",
 "C18": "introspection/client-schema truthfulness: pure over schemas and configurations.",
 "C19": "extend/sort/diff laws: pure over schemas.",
 "C20": "schema validation totality/completeness: pure; the cached error list is a memo of a pure function.",
}
INFO = {
 "C02": ("§4-C02", "seeded search over server-lifetime histories (4-12 operations on shared schema/document objects, schemas derived from them by extend_schema / lexicographic_sort_schema, allocator churn) of generated requests with synchronous resolvers, each response and each resolver argument dict compared with an executable reference model written from the spec",
         "deterministic simulation: seeded history machine + reference-model differential (exploration, not exhaustive over inputs)"),
 "C03": ("§4-C03", "seeded search over completion schedules: each generated scenario (1-3 concurrent requests, sync/awaitable mix incl. list items, type resolvers, async iterators, injected resolver faults) is executed by the reference model, by the real executor synchronously and by the real executor on a simulated event loop under several seeded schedules and simulated-allocator policies; data, nulled positions, well-formedness, exactly-once and mutation seriality are checked on every run; for small scenarios (2-7 awaitables) all completion orders are walked (exact odometer, bounded)",
         "deterministic simulation: custom asyncio loop with seeded completion scheduler + simulated allocator, reference-model oracle"),
 "C04": ("§4-C04", "seeded search over schedules, consumer pull timing, early execution and queue capacity for generated @defer/@stream requests; payloads are merged by an independent merge function and compared with / refined against the reference model's non-incremental response",
         "deterministic simulation: seeded schedules + merge/refinement oracle against reference model"),
 "C05": ("§4-C05", "protocol monitor fed every payload of every simulated incremental run (end-to-end requests) and of synthetic work graphs driven directly through WorkQueue/IncrementalPublisher/StreamItemQueue under seeded event orders and failures; for small graphs (2-7 events) all event orders are walked under three knob settings (exact odometer, bounded)",
         "deterministic simulation: seeded event orders + online protocol monitor (sampling, not bounded-exhaustive)"),
 "C06": ("§4-C06", "seeded search over stop faults (aclose after k payloads, abort with reason at a seeded loop iteration, resolver/source failure, hanging externals; for selected units a stop-instant sweep forces the close / abort to every loop iteration of one schedule) with quiescence-based liveness, leak, source-close and hook oracles evaluated on the simulated loop",
         "deterministic simulation with fault injection: stop/abort/cancel at seeded instants, quiescence and leak oracles"),
 "C07": ("§4-C07", "seeded search over subscription sources (pull, async generator, push queue), event sequences, emission-vs-pull timing and source faults; each response compared with the reference model's execution for that event; order/count/termination checked over the recorded history",
         "deterministic simulation: seeded producer/consumer interleavings + per-event reference-model oracle"),
}
checks=[]
for c in claimed:
    ref, text, tech = INFO[c]
    checks.append({
      "property_id": c,
      "quick_cmd": f"./check {c} --tier quick",
      "thorough_cmd": f"./check {c} --tier thorough",
      "evidence_file": f"/verif/evidence/{c}.json",
      "replay_cmd_template": f"./check {c} --replay {{path}}",
      "engine": "simloop",
      "level_claimed": {"category": "exploration", "text": text, "design_ref": ref},
      "level_note": "sampling: a clean batch is evidence, not proof. Trusted base: reference model (sim/model.py), graphql parser/build_schema/validate, CPython asyncio Task/Future semantics; schedules only choose which external completions arrive at which loop iteration (the ready queue is never reordered).",
      "technique": tech,
    })
m = {
 "version": 1,
 "setup_cmd": "/venv/bin/python -c \"import sys; assert sys.version_info[:2] >= (3, 10); import asyncio\" && mkdir -p /verif/evidence /verif/replays",
 "hooks": {"guard": "GRAPHQL_CORE_VERIF", "enable": "no source hooks: all seams are module globals / constructor defaults rebound inside the check process (sim/alloc.py, sim/loop.py)", "baseline_off_cmd": "cd /repo && /venv/bin/python -m pytest -ra -q -p no:cacheprovider --timeout=900 --continue-on-collection-errors", "source_commits": [], "add_only": True},
 "engines": [{"name": "simloop", "path": "/verif/sim", "serves_properties": claimed, "kind_free_text": "deterministic simulation: asyncio BaseEventLoop subclass with fake selector as single decision point, seeded choice tapes, simulated allocator, harness resolvers/sources/consumers as controlled externals, reference model oracle"}],
 "checks": checks,
 "not_applicable": [{"property_id": k, "reason": v} for k, v in NA.items()] + [
    {"property_id": c, "reason": "simulation target (see DESIGN.md); check not yet registered in this commit"} for c in INFO if c not in claimed],
 "notes": "See DESIGN.md. Genuine defects found by the checks are repaired by unguarded 'fix:' commits in /repo (%d so far, each recorded as a 'fixed:' line in known_findings.json with its commit; DESIGN.md section 7.1); defects whose repair the pinned suite contradicts are listed under 'findings' in known_findings.json and printed as KNOWN-FINDING." % len(json.load(open("/verif/known_findings.json"))["fixed"]),
}
json.dump(m, open('/verif/MANIFEST.json','w'), indent=1)
