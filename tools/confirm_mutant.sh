#!/bin/sh
# usage: confirm_mutant.sh <worktree> <dir with patch.diff demo.py>
WT="$1"; D="$2"
cd "$WT" || exit 2
git checkout -q -- . ; git status --short | grep -v '^??' && { echo "worktree dirty"; exit 2; }
PYTHONPATH="$WT/src" timeout 300 /venv/bin/python "$D/demo.py" >/dev/null 2>&1; c0=$?
git apply "$D/patch.diff" || { echo "patch does not apply"; exit 2; }
PYTHONPATH="$WT/src" timeout 300 /venv/bin/python "$D/demo.py" >/dev/null 2>&1; c1=$?
PYTHONPATH="$WT/src" timeout 1500 /venv/bin/python -m pytest -q -p no:cacheprovider -n 8 --timeout=900 -x 2>&1 | tail -1 > /tmp/suite.$$; s=$(cat /tmp/suite.$$); rm -f /tmp/suite.$$
git checkout -q -- .
echo "demo_clean_exit=$c0 demo_patched_exit=$c1 suite='$s'"
