#!/venv/bin/python
"""Run every seeded change against the checks of its property (quick tier) and record who detects it.
usage: matrix.py [name-filter]"""
import json, os, subprocess, sys, glob
ROOT="/verif"
flt = sys.argv[1] if len(sys.argv) > 1 else ""
CHECKS = {"C02":["C02"],"C03":["C03"],"C04":["C04","C05"],"C05":["C05","C04"],"C06":["C06"],"C07":["C07"]}
def sh(cmd): return subprocess.run(cmd, shell=True, capture_output=True, text=True)
assert not sh("git -C /repo status --short | grep -v '^??'").stdout.strip(), "/repo dirty"
rows=[]
for d in sorted(glob.glob(f"{ROOT}/seeded/*")):
    name=os.path.basename(d)
    if flt and flt not in name: continue
    meta_p=f"{d}/meta.json"
    meta=json.load(open(meta_p)) if os.path.exists(meta_p) else {}
    prop=meta.get("property") or meta.get("breaks")
    if not prop: print("no property for", name); continue
    if sh(f"git -C /repo apply --check {d}/patch.diff").returncode:
        print(name, "patch does not apply to the current tree"); meta["applies_to_current_tree"]=False
        json.dump(meta,open(meta_p,"w"),indent=1); continue
    sh(f"git -C /repo apply {d}/patch.diff")
    det={}
    try:
        for c in CHECKS[prop] + [c for c in meta.get("also_check", []) if c not in CHECKS[prop]]:
            r=sh(f"cd {ROOT} && ./check {c}")
            lines=[l for l in r.stdout.splitlines() if l.strip().startswith("oracle=")]
            det[c]={"exit":r.returncode,"violations":sorted(set(l.strip() for l in lines))[:6]}
    finally:
        sh("git -C /repo checkout -- .")
    meta["detected_by"]={c:v for c,v in det.items()}
    meta["applies_to_current_tree"]=True
    json.dump(meta,open(meta_p,"w"),indent=1)
    rows.append((name,prop,{c:(v["exit"],len(v["violations"])) for c,v in det.items()}))
    print(name, prop, {c:(v["exit"],len(v["violations"])) for c,v in det.items()}, flush=True)
