#!/venv/bin/python
"""Run every seeded change against the checks of its property (quick tier) and record who
detects it.  Each change is applied to a scratch copy of /repo's HEAD and checked by a scratch
copy of /verif (tools/scratch_run.sh): /repo itself is never touched.
usage: matrix.py [name-filter] [--jobs N]"""
import glob
import json
import os
import subprocess
import sys
from concurrent.futures import ThreadPoolExecutor

ROOT = "/verif"
args = [a for a in sys.argv[1:] if not a.startswith("--")]
flt = args[0] if args else ""
jobs = 1
for a in sys.argv[1:]:
    if a.startswith("--jobs"):
        jobs = int(a.split("=")[1])
CHECKS = {"C02": ["C02"], "C03": ["C03"], "C04": ["C04", "C05"], "C05": ["C05", "C04"],
          "C06": ["C06"], "C07": ["C07"]}


def sh(cmd):
    return subprocess.run(cmd, shell=True, capture_output=True, text=True)


def one(d):
    name = os.path.basename(d)
    meta_p = f"{d}/meta.json"
    meta = json.load(open(meta_p)) if os.path.exists(meta_p) else {}
    prop = meta.get("property") or meta.get("breaks")
    if not prop:
        return name, "no property"
    checks = CHECKS[prop] + [c for c in meta.get("also_check", []) if c not in CHECKS[prop]]
    script = "; ".join(f"echo @@@@ {c}; ./check {c}; echo @@@@ exit=$?" for c in checks)
    r = sh(f"{ROOT}/tools/scratch_run.sh {d}/patch.diff sh -c '{script}'")
    if "patch does not apply" in r.stdout + r.stderr:
        meta["applies_to_current_tree"] = False
        json.dump(meta, open(meta_p, "w"), indent=1)
        return name, "patch does not apply to the current tree"
    det = {}
    cur = None
    for ln in r.stdout.splitlines():
        if ln.startswith("@@@@ exit="):
            det[cur]["exit"] = int(ln.split("=")[1])
        elif ln.startswith("@@@@ "):
            cur = ln[5:].strip()
            det[cur] = {"exit": None, "violations": set()}
        elif cur and ln.strip().startswith("oracle="):
            det[cur]["violations"].add(ln.strip())
    for c in det:
        det[c]["violations"] = sorted(det[c]["violations"])[:8]
    meta["detected_by"] = det
    meta["applies_to_current_tree"] = True
    json.dump(meta, open(meta_p, "w"), indent=1)
    return name, f"{prop} " + str({c: (v["exit"], len(v["violations"])) for c, v in det.items()})


dirs = [d for d in sorted(glob.glob(f"{ROOT}/seeded/*")) if not flt or flt in os.path.basename(d)]
with ThreadPoolExecutor(max_workers=jobs) as pool:
    for name, res in pool.map(one, dirs):
        print(name, res, flush=True)
