#!/bin/sh
# usage: try_mutant.sh <patch.diff> <PROP> [units]   -- applies to /repo, runs the check, reverts
P="$1"; PROP="$2"; U="${3:-}"
cd /verif || exit 2
git -C /repo status --short | grep -v '^??' && { echo "/repo dirty"; exit 2; }
git -C /repo apply "$P" || exit 2
if [ -n "$U" ]; then ./check "$PROP" --units "$U" > /tmp/try.$$ 2>&1; else ./check "$PROP" > /tmp/try.$$ 2>&1; fi
rc=$?
git -C /repo checkout -- .
grep -c "^VIOLATION" /tmp/try.$$ | sed 's/^/violations=/'
grep "oracle=\|HARNESS\|units=" /tmp/try.$$ | head -8
rm -f /tmp/try.$$
echo "exit=$rc"
