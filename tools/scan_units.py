#!/venv/bin/python
"""Scan selected unit indices of a check and print every violation (oracle, fingerprint, knobs).
usage (inside scratch_run.sh or /verif): scan_units.py PROP START STOP [MOD REM] [--seed S] [--tier T]
Runs in 16 processes; honours VERIF_REPO_SRC like the runner."""
import os
import sys
from concurrent.futures import ProcessPoolExecutor
import multiprocessing as mp

sys.path.insert(0, os.path.dirname(os.path.dirname(os.path.abspath(__file__))))


def work(a):
    prop, seed, idx, tier = a
    from checks import runner
    runner.setup_path()
    mod = runner.load(prop)
    out = []
    known = runner.load_known()
    for i in idx:
        vs, info = mod.run_unit(seed=(prop, seed, i), tier=tier, stats={})
        for v in vs:
            if runner.match_known(v.to_json(), known) is not None:
                continue
            out.append((i, v.oracle, dict(v.fingerprint), {k: v.detail.get(k) for k in ("knobs", "stopat", "sched_index", "stop")}))
    return out


def main():
    args = [a for a in sys.argv[1:] if not a.startswith("--")]
    prop, start, stop = args[0], int(args[1]), int(args[2])
    mod_, rem = (int(args[3]), int(args[4])) if len(args) >= 5 else (1, 0)
    seed = 0
    tier = "quick"
    for a in sys.argv[1:]:
        if a.startswith("--seed="):
            seed = int(a.split("=")[1])
        if a.startswith("--tier="):
            tier = a.split("=")[1]
    idx = [i for i in range(start, stop) if i % mod_ == rem]
    chunks = [idx[k::64] for k in range(64)]
    with ProcessPoolExecutor(16, mp_context=mp.get_context("fork")) as ex:
        for res in ex.map(work, [(prop, seed, c, tier) for c in chunks if c]):
            for r in res:
                print(*r, flush=True)


main()
