#!/venv/bin/python
"""Write (and minimise) a replay for the first violation of a given oracle in a unit. usage: mkreplay.py PROP INDEX ORACLE [budget]"""
import sys, json
sys.path.insert(0,'/verif')
from checks import runner; runner.setup_path()
prop, idx, oracle = sys.argv[1], int(sys.argv[2]), sys.argv[3]
budget = int(sys.argv[4]) if len(sys.argv) > 4 else 600
mod = runner.load(prop)
vs, info = mod.run_unit(seed=(prop, 0, idx))
v = next(v for v in vs if v.oracle == oracle)
small, sv, n = runner.shrink(mod, info["unit"], (prop, oracle), budget_runs=budget, budget_s=120, fingerprint=v.fingerprint)
render, digest, _ = runner.render_unit(mod, small, "quick")
sv = sv or v
rf = {"property": prop, "oracle": oracle, "fingerprint": sv.fingerprint, "run_index": idx, "tier": "quick",
      "unit": small, "event_digest": digest, "detail": sv.detail, "render": render,
      "minimised_from": {"shrink_runs": n}, "reproduced_in_fresh_process": None, "verif_seed": 0}
path = f"/verif/replays/{prop}-{oracle}-u{idx}.json"
json.dump(rf, open(path, "w"), indent=1, default=str)
print(path, sv.fingerprint)
