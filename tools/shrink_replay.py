#!/venv/bin/python
"""Minimise a replay file in place (same (property, oracle) class). usage: shrink_replay.py <file> [budget_runs]"""
import json, sys
sys.path.insert(0, "/verif")
from checks import runner
runner.setup_path()
f = sys.argv[1]
budget = int(sys.argv[2]) if len(sys.argv) > 2 else 600
rf = json.load(open(f))
mod = runner.load(rf["property"])
target = (rf["property"], rf["oracle"])
small, v, n = runner.shrink(mod, rf["unit"], target, budget_runs=budget, budget_s=90, tier=rf.get("tier", "quick"), fingerprint=rf["fingerprint"])
if v is None:
    print("does not reproduce"); sys.exit(1)
render, digest, _ = runner.render_unit(mod, small, rf.get("tier", "quick"))
rf.update(unit=small, fingerprint=v.fingerprint, detail=v.detail, render=render, event_digest=digest)
rf["minimised_from"]["shrink_runs"] = n
json.dump(rf, open(f, "w"), indent=1, default=str)
print("shrunk in", n, "runs; fingerprint", v.fingerprint)
