"""W2 — the work-graph micro-world (DESIGN §3.3).

Real WorkQueue + IncrementalPublisher + StreamItemQueue + Computation, synthetic work:
a tape-drawn forest of delivery groups, execution groups (tasks) in 1-3 groups, streams at
the root / produced by tasks / nested under stream items, nested work produced by successful
tasks.  Only graphs the executor's production rules can build are generated.
"""
from __future__ import annotations

import asyncio

from graphql.error import GraphQLError
from graphql.execution.incremental import (
    Computation,
    DeliveryGroup,
    ExecutionGroup,
    ExecutionGroupValue,
    IncrementalPublisher,
    ItemStream,
    StreamItemQueue,
    StreamItemValue,
)
from graphql.execution.incremental.incremental_executor import IncrementalExecutor
from graphql.execution.incremental.work_queue import Work, WorkResult
from graphql.pyutils import Path

from sim.incremental import Monitor, ProtocolError
from sim.loop import Sim
from sim.oracle import Violation
from sim.tape import ScriptTape, Tape, mix, next_script

from .common import bump, digest_of, pair_hash

KEYS = ("a", "b")
MAX_DEPTH = 3


def make_path(keys):
    p = None
    for k in keys:
        p = Path(p, k, None)
    return p


def full_tree(depth):
    if depth == 0:
        return {}
    return {k: full_tree(depth - 1) for k in KEYS}


# --- specs drawn from the tape ------------------------------------------------------------


class GroupSpec:
    def __init__(self, gid, parent, path):
        self.gid = gid
        self.parent = parent  # GroupSpec or None
        self.path = tuple(path)
        self.label = f"G{gid}"
        self.obj = None

    def ancestors(self):
        g = self.parent
        while g is not None:
            yield g
            g = g.parent


class TaskSpec:
    def __init__(self, tid, groups, path):
        self.tid = tid
        self.groups = groups
        self.path = tuple(path)
        self.succeeds = True
        self.delivery = "sync"  # sync | ext
        self.nested = None  # WorkSpec produced on success
        self.obj = None
        self.ran = 0


class StreamSpec:
    def __init__(self, sid, path):
        self.sid = sid
        self.path = tuple(path)  # path of the list
        self.n_items = 0
        self.fail_after = None
        self.item_async = ()
        self.fail_by_item = False  # the failure at fail_after is the rejection of that item
        self.item_hang = ()  # items behind a failing item that never complete by themselves
        self.item_slowc = ()  # early-executed item runs in a task that cancels slowly
        self.src_wait = ()  # the source needs a moment (an external) before item i
        self.slow_close = False  # the abort callback (closing the source) awaits an external
        self.started = 0  # the producer function was entered (the source is in use)
        self.finished = False  # ... and returned normally
        self.abort_calls = 0  # how often the queue ran its abort callback
        self.close_started = 0  # ... and how often the (slow) closing it returned began to run
        self.self_failed = False  # the source raised by itself (the producer cleans up on its own)
        self.item_work = {}  # index -> WorkSpec
        self.label = f"S{sid}"
        self.obj = None
        self.queue = None


class WorkSpec:
    def __init__(self):
        self.groups = []
        self.tasks = []
        self.streams = []


class GraphSpec:
    def __init__(self, tape, big=False):
        self.t = tape
        self.ngroup = 0
        self.ntask = 0
        self.nstream = 0
        self.all_groups = []
        self.all_tasks = []
        self.all_streams = []
        self.fail_num = (0, 2, 4, 6)[tape.weighted((2, 3, 3, 1), "w2_fail")]
        self.async_num = (0, 3, 6, 8)[tape.weighted((1, 3, 3, 1), "w2_async")]
        self.nest_num = (0, 2, 4)[tape.weighted((2, 3, 2), "w2_nest")]
        self.initial = self.work(None, (), 0, big)
        self.itemfail_motif = tape.draw(3, "w2_itemfail_motif") == 0
        if self.itemfail_motif:
            # motif: a stream whose head (or second) item rejects while slower items are pending
            # behind it and the source keeps delivering items that never complete by themselves
            t = tape
            self.nstream += 1
            ss = StreamSpec(self.nstream, (f"s{self.nstream}",))
            ss.n_items = 3 + t.draw(3, "w2_m_items")
            ss.fail_after = t.draw(2, "w2_m_fail")
            ss.fail_by_item = True
            ss.item_async = (True,) * ss.n_items
            ss.item_hang = tuple(bool(t.draw(4, "w2_m_hang")) for _ in range(ss.n_items))
            ss.item_slowc = tuple(bool(t.draw(2, "w2_m_slowc")) for _ in range(ss.n_items))
            ss.src_wait = tuple(i > ss.fail_after and bool(t.draw(3, "w2_m_wait"))
                                for i in range(ss.n_items))
            ss.slow_close = t.draw(4, "w2_m_sclose") == 0
            self.initial.streams.append(ss)
            self.all_streams.append(ss)
        self.nestclose_motif = tape.draw(4, "w2_nestclose_motif") == 0
        if self.nestclose_motif:
            # motif: a stream whose (asynchronous) items each carry a nested stream with a slow
            # abort callback - what a producer holds, and has to abort, when it is cancelled
            # in the middle of an item
            t = tape
            self.nstream += 1
            ss = StreamSpec(self.nstream, (f"s{self.nstream}",))
            ss.n_items = 2 + t.draw(3, "w2_n_items")
            ss.item_async = (True,) * ss.n_items
            ss.slow_close = t.draw(2, "w2_n_sclose") == 0
            for i in range(ss.n_items):
                ws = self.item_work(ss, i, 1)
                if not ws.streams:
                    self.nstream += 1
                    ns = StreamSpec(self.nstream, ss.path[:-1] + (f"s{self.nstream}",))
                    ns.n_items = t.draw(3, "w2_n_initems")
                    ns.item_async = tuple(bool(t.draw(2, "w2_n_iasync")) for _ in range(ns.n_items))
                    ws.streams.append(ns)
                    self.all_streams.append(ns)
                for ns in ws.streams:
                    ns.slow_close = True
                ss.item_work[i] = ws
            self.initial.streams.append(ss)
            self.all_streams.append(ss)

    def ext_path(self, base, maxadd=1):
        t = self.t
        p = list(base)
        for _ in range(maxadd):
            if len(p) < MAX_DEPTH and t.draw(2, "w2_ext"):
                p.append(KEYS[t.draw(len(KEYS), "w2_key")])
        return tuple(p)

    def work(self, producer, own_groups, level, big=False):
        """A Work produced initially (producer None) or by a task with groups own_groups."""
        t = self.t
        ws = WorkSpec()
        top = producer is None
        ng = (1 + t.draw(5 if big else 4, "w2_ng")) if top else t.draw(3, "w2_ngn")
        for _ in range(ng):
            cands = list(own_groups) + ws.groups
            parent = None
            if cands and (not top or t.draw(2, "w2_par")):
                parent = cands[t.draw(len(cands), "w2_parent")]
            elif not top:
                parent = None
            if not top and parent is None and not cands:
                continue
            base = parent.path if parent is not None else (producer.path if producer else ())
            if parent is not None and producer is not None and len(producer.path) > len(base):
                base = producer.path
            self.ngroup += 1
            g = GroupSpec(self.ngroup, parent, self.ext_path(base))
            ws.groups.append(g)
            self.all_groups.append(g)
        nt = (1 + t.draw(6 if big else 5, "w2_nt")) if top else t.draw(3, "w2_ntn")
        for _ in range(nt):
            pool = ws.groups + list(own_groups)
            if not pool:
                break
            primary = pool[t.draw(len(pool), "w2_prim")]
            base = primary.path
            if producer is not None and len(producer.path) > len(base):
                base = producer.path
            tpath = self.ext_path(base)
            groups = [primary]
            for g in pool:
                if g is primary or len(groups) >= 3:
                    continue
                if tpath[: len(g.path)] != g.path:
                    continue
                related = any(g is x or g in x.ancestors() or x in g.ancestors() for x in groups)
                if related:
                    continue
                if t.draw(3, "w2_share") == 2:
                    groups.append(g)
            self.ntask += 1
            ts = TaskSpec(self.ntask, groups, tpath)
            ts.succeeds = t.draw(8, "w2_tfail") >= self.fail_num
            ts.delivery = "ext" if t.draw(8, "w2_tasync") < self.async_num else "sync"
            if ts.succeeds and level < 2 and t.draw(8, "w2_tnest") < self.nest_num:
                ts.nested = self.work(ts, groups, level + 1)
            ws.tasks.append(ts)
            self.all_tasks.append(ts)
        if top and t.draw(3, "w2_motif") == 2:
            # motif: an execution group shared between a root fragment and a fragment nested in
            # another pending root fragment (overlapping @defer at different depths)
            base = ()
            self.ngroup += 1
            gp = GroupSpec(self.ngroup, None, self.ext_path(base))
            self.ngroup += 1
            gf = GroupSpec(self.ngroup, None, gp.path)
            self.ngroup += 1
            gc = GroupSpec(self.ngroup, gp, self.ext_path(gp.path))
            for g in (gp, gf, gc):
                ws.groups.append(g)
                self.all_groups.append(g)
            for groups, fail_w in (([gf, gc], 1), ([gf], 4), ([gp], 1), ([gc], 1)):
                if len(groups) == 1 and groups[0] is gc and t.draw(2, "w2_motif_c"):
                    continue
                self.ntask += 1
                ts = TaskSpec(self.ntask, groups, self.ext_path(gc.path if gc in groups else groups[0].path))
                ts.succeeds = t.draw(8, "w2_mfail") >= fail_w
                ts.delivery = "ext" if t.draw(4, "w2_masync") else "sync"
                if ts.succeeds and t.draw(8, "w2_mnest") < self.nest_num:
                    ts.nested = self.work(ts, groups, level + 1)
                ws.tasks.append(ts)
                self.all_tasks.append(ts)
        ns = t.draw(3 if top else 2, "w2_ns")
        for _ in range(ns):
            base = producer.path if producer is not None else ()
            self.nstream += 1
            ss = StreamSpec(self.nstream, self.ext_path(base, 2) + (f"s{self.nstream}",))
            ss.n_items = t.draw(5, "w2_items")
            if t.draw(8, "w2_sfail") < self.fail_num:
                ss.fail_after = t.draw(ss.n_items + 1, "w2_sfailj")
            ss.item_async = tuple(t.draw(8, "w2_iasync") < self.async_num
                                  for _ in range(ss.n_items))
            ss.slow_close = t.draw(4, "w2_sclose") == 0
            if ss.fail_after is not None and ss.fail_after < ss.n_items and t.draw(2, "w2_fbi"):
                # the stream fails because item fail_after rejects; the source goes on producing
                # items behind it, some of which never complete by themselves
                ss.fail_by_item = True
                ss.item_hang = tuple(bool(t.draw(2, "w2_ihang")) for _ in range(ss.n_items))
                ss.item_slowc = tuple(t.draw(3, "w2_islow") == 0 for _ in range(ss.n_items))
                ss.src_wait = tuple(t.draw(3, "w2_swait") == 0 for _ in range(ss.n_items))
            if level < 2:
                for i in range(ss.n_items):
                    if t.draw(8, "w2_inest") < self.nest_num // 2:
                        ss.item_work[i] = self.item_work(ss, i, level + 1)
            ws.streams.append(ss)
            self.all_streams.append(ss)
        return ws

    def item_work(self, ss, index, level):
        """Work produced by a stream item: new root-able groups + tasks (+ nested stream)."""
        t = self.t
        ws = WorkSpec()
        # item objects are plain ints in the list; nested work lives at object paths elsewhere
        for _ in range(1 + t.draw(2, "w2_ing")):
            parent = ws.groups[t.draw(len(ws.groups), "w2_ipar")] if ws.groups and t.draw(2, "w2_ip") else None
            base = parent.path if parent is not None else ss.path[:-1]
            self.ngroup += 1
            g = GroupSpec(self.ngroup, parent, self.ext_path(base))
            ws.groups.append(g)
            self.all_groups.append(g)
        for _ in range(1 + t.draw(2, "w2_int")):
            primary = ws.groups[t.draw(len(ws.groups), "w2_iprim")]
            self.ntask += 1
            ts = TaskSpec(self.ntask, [primary], self.ext_path(primary.path))
            ts.succeeds = t.draw(8, "w2_itfail") >= self.fail_num
            ts.delivery = "ext" if t.draw(8, "w2_itasync") < self.async_num else "sync"
            ws.tasks.append(ts)
            self.all_tasks.append(ts)
        if level < 2 and t.draw(3, "w2_ins") == 2:
            self.nstream += 1
            ns = StreamSpec(self.nstream, self.ext_path(ss.path[:-1], 1) + (f"s{self.nstream}",))
            ns.n_items = t.draw(4, "w2_initems")
            ns.item_async = tuple(t.draw(8, "w2_iiasync") < self.async_num
                                  for _ in range(ns.n_items))
            ns.slow_close = t.draw(2, "w2_insclose") == 0
            ws.streams.append(ns)
            self.all_streams.append(ns)
        return ws

    def shape(self):
        return (len(self.all_groups), len(self.all_tasks), len(self.all_streams),
                sum(1 for t in self.all_tasks if len(t.groups) > 1),
                sum(1 for t in self.all_tasks if not t.succeeds),
                sum(1 for s in self.all_streams if s.fail_after is not None))

    def render(self):
        def w(ws):
            return {
                "groups": [{"id": g.label, "parent": g.parent.label if g.parent else None,
                            "path": list(g.path)} for g in ws.groups],
                "tasks": [{"id": f"t{t.tid}", "groups": [g.label for g in t.groups],
                           "path": list(t.path), "succeeds": t.succeeds, "delivery": t.delivery,
                           "nested": w(t.nested) if t.nested else None} for t in ws.tasks],
                "streams": [{"id": s.label, "path": list(s.path), "items": s.n_items,
                             "fail_after": s.fail_after, "item_async": list(s.item_async),
                             "slow_close": s.slow_close,
                             "fail_by_item": s.fail_by_item, "item_hang": list(s.item_hang),
                             "item_slowc": list(s.item_slowc), "src_wait": list(s.src_wait),
                             "item_work": {str(i): w(x) for i, x in s.item_work.items()}}
                            for s in ws.streams],
            }
        return w(self.initial)


# --- expected outcome (reference model of delivery) ---------------------------------------------


def expected(spec, items_seen=None):
    """Which task values must be delivered, from the outcomes alone (timing independent).

    Reference semantics: a fragment (group) is delivered iff all its execution groups (tasks)
    succeed and its parent fragment is delivered; a task's value is delivered iff it succeeded
    and at least one of its fragments is delivered; work nested in a task exists once the task
    succeeded, streams produced by a task start once the task's value is delivered, and work
    nested in a stream item exists once that item is produced.
    """
    exists_t = set()
    exists_g = set()
    exists_s = set()
    pending_streams = []  # (stream, producer task or None, parent stream or None)

    def add_work(ws, producer=None):
        for g in ws.groups:
            exists_g.add(g)
        for t in ws.tasks:
            exists_t.add(t)
            if t.succeeds and t.nested is not None:
                add_work(t.nested, t)
        for s in ws.streams:
            pending_streams.append((s, producer))

    add_work(spec.initial)
    while True:
        tasks_of = {}
        for t in exists_t:
            for g in t.groups:
                tasks_of.setdefault(g, []).append(t)
        ok_cache = {}

        def ok(g, ok_cache=ok_cache, tasks_of=tasks_of):
            if g in ok_cache:
                return ok_cache[g]
            ok_cache[g] = False
            r = g in exists_g and all(t.succeeds for t in tasks_of.get(g, ()))
            if r and g.parent is not None:
                r = ok(g.parent)
            ok_cache[g] = r
            return r

        delivered = {t for t in exists_t if t.succeeds and any(ok(g) for g in t.groups)}
        grew = False
        for s, producer in list(pending_streams):
            if s in exists_s:
                continue
            if producer is None or producer in delivered:
                exists_s.add(s)
                grew = True
                lim = s.n_items if s.fail_after is None else min(s.fail_after, s.n_items)
                if s.fail_after is not None and items_seen is not None:
                    # items still pending when the source failed may be withheld with the tail;
                    # nested work exists for the items that were actually delivered
                    lim = min(lim, items_seen(s))
                for i in range(lim):
                    if i in s.item_work:
                        add_work(s.item_work[i], None)
        if not grew:
            return delivered, ok, exists_g, exists_s, tasks_of


# --- instantiating real library objects ------------------------------------------------------------


class Ctx:
    abort_signal = None

    def __init__(self, world):
        self.world = world
        self.hook_calls = 0

    def abort_error(self):
        return RuntimeError("aborted")

    async def cancel_incremental_work(self, reason=None):
        await self.world.abort_all(reason)

    def run_async_work_finished_hook(self):
        self.hook_calls += 1


class _SubExecutorStandIn:
    """What IncrementalExecutor.abort()/abort_and_settle() need from `self`."""

    def __init__(self, world, work):
        self.world = world
        self.tasks = list(work.tasks)
        self.streams = list(work.streams)

    @staticmethod
    def is_awaitable(value):
        return hasattr(value, "__await__")

    def abort(self, reason=None):
        return IncrementalExecutor.abort(self, reason)

    def settle_in_background(self, awaitables):
        self.world.background.append(
            asyncio.ensure_future(asyncio.gather(*awaitables, return_exceptions=True)))


class World2:
    def __init__(self, sim, spec, early, capacity):
        self.sim = sim
        self.spec = spec
        self.early = early
        self.capacity = capacity
        self.computations = []
        self.queues = []
        self.task_runs = {}
        self.pushed = set()  # (stream id, item index) whose push() returned
        self.slow_cancels = 0
        self.pushed_behind_failure = 0  # items handed to a queue behind a failing item
        self.nested_aborts_by_producer = 0  # cancelled producers that had to abort nested work
        self.background = []  # shielded cleanups left to finish in the background
        # like the executor's shared list of stream item queues: once the execution has been
        # stopped, work created afterwards is not started and new queues are aborted at once
        self.closed = False

    def build(self, ws):
        groups = []
        for g in ws.groups:
            g.obj = DeliveryGroup(make_path(g.path), g.label, g.parent.obj if g.parent else None)
            groups.append(g.obj)
        tasks = []
        for t in ws.tasks:
            comp = Computation(self.task_fn(t), None)
            self.computations.append(comp)
            t.obj = ExecutionGroup([g.obj for g in t.groups], comp, make_path(t.path))
            if self.early and not self.closed:
                comp.prime()
            tasks.append(t.obj)
        streams = []
        for s in ws.streams:
            q = StreamItemQueue(self.produce_fn(s), self.abort_fn(s), eager=self.early,
                                capacity=self.capacity)
            self.queues.append(q)
            s.queue = q
            if self.closed:
                r = q.abort()
                if r is not None and hasattr(r, "__await__"):
                    self.background.append(asyncio.ensure_future(r))
            s.obj = ItemStream(make_path(s.path), s.label, q, 0)
            streams.append(s.obj)
        return Work(groups, tasks, streams)

    def task_fn(self, t):
        def fn():
            t.ran += 1
            self.sim.log("task-run", t.tid)
            if t.delivery == "sync":
                if not t.succeeds:
                    raise GraphQLError(f"T{t.tid} failed")
                return self.task_result(t)
            ext = self.sim.external(f"task:{t.tid}", "res",
                                    ("value", None) if t.succeeds
                                    else ("raise", GraphQLError(f"T{t.tid} failed")))

            async def run():
                await ext.fut
                return self.task_result(t)

            return run()

        return fn

    def task_result(self, t):
        value = ExecutionGroupValue([g.obj for g in t.groups], list(t.path),
                                    {f"t{t.tid}": t.tid}, None)
        work = self.build(t.nested) if t.nested is not None else None
        return WorkResult(value, work)

    def abort_fn(self, s):
        """The abort callback of the queue: what closes the source in the real executor."""
        def on_abort(_reason):
            s.abort_calls += 1
            self.sim.log("stream-abort-callback", s.sid)
            if not s.slow_close:
                return None

            async def close():
                # (the external exists once the closing has begun: a close coroutine that is
                # dropped or cancelled before its first step never closes the source)
                s.close_started += 1
                await self.sim.external(f"sclose:{s.sid}", "aclose", ("value", None)).fut

            return close()

        return on_abort

    def produce_fn(self, s):
        async def slow_item(i, outcome, hanging):
            # (the external is created by the task's first step: a task cancelled before it
            # ever ran leaves nothing behind that could be waited for)
            ext = self.sim.external(f"sitem:{s.sid}:{i}", "item", outcome, hanging=hanging)
            try:
                return await ext.fut
            except asyncio.CancelledError:
                self.slow_cancels += 1
                await self.sim.external(f"sitemc:{s.sid}:{i}", "cleanup", ("value", None)).fut
                raise

        async def held_item(ext, work):
            # like IncrementalExecutor.complete_stream_item: the producer completes the item
            # itself (no early execution) and, when it fails or is cancelled meanwhile, aborts
            # the work nested in the item before passing the failure on - through the
            # executor's own abort() / abort_and_settle(), run on a stand-in for the item's
            # sub-executor
            try:
                return await ext.fut
            except (Exception, asyncio.CancelledError) as exc:
                if not isinstance(exc, asyncio.CancelledError):
                    s.self_failed = True  # the producer fails by itself and cleans up on its own
                if work is not None and (work.tasks or work.streams):
                    self.nested_aborts_by_producer += 1
                    sub = _SubExecutorStandIn(self, work)
                    settle = getattr(IncrementalExecutor, "abort_and_settle", None)
                    if settle is not None:
                        await settle(sub)
                    else:  # older trees: abort and await in place
                        r = IncrementalExecutor.abort(sub)
                        if r is not None:
                            await r
                raise

        async def produce(queue):
            s.started += 1
            await produce_items(queue)
            s.finished = True

        async def produce_items(queue):
            for i in range(s.n_items):
                if s.src_wait and s.src_wait[i]:
                    await self.sim.external(f"src:{s.sid}:{i}", "anext", ("value", None)).fut
                failing = s.fail_by_item and i == s.fail_after
                if s.fail_after is not None and i == s.fail_after and not failing:
                    s.self_failed = True
                    raise GraphQLError(f"S{s.sid} failed")
                work = self.build(s.item_work[i]) if i in s.item_work else None
                result = WorkResult(StreamItemValue(i, None), work)
                behind = s.fail_by_item and i > s.fail_after
                if s.item_async[i] or failing:
                    outcome = (("raise", GraphQLError(f"S{s.sid} failed")) if failing
                               else ("value", result))
                    hanging = bool(behind and s.item_hang[i])
                    if self.early and s.item_slowc and s.item_slowc[i]:
                        await queue.push(asyncio.ensure_future(slow_item(i, outcome, hanging)))
                    else:
                        ext = self.sim.external(f"sitem:{s.sid}:{i}", "item", outcome,
                                                hanging=hanging)
                        if self.early:
                            await queue.push(ext.fut)
                        else:
                            await queue.push(await held_item(ext, work))
                else:
                    await queue.push(result)
                self.pushed.add((s.sid, i))
                if behind:
                    self.pushed_behind_failure += 1
            if s.fail_after is not None and s.fail_after >= s.n_items:
                s.self_failed = True
                raise GraphQLError(f"S{s.sid} failed")

        return produce

    async def abort_all(self, reason=None):
        self.closed = True
        aw = []
        for c in self.computations:
            r = c.abort(reason)
            if r is not None and hasattr(r, "__await__"):
                aw.append(r)
        for q in self.queues:
            r = q.abort(reason)
            if r is not None and hasattr(r, "__await__"):
                aw.append(r)
        if aw:
            await asyncio.gather(*aw, return_exceptions=True)


def initial_data(spec):
    data = full_tree(MAX_DEPTH)
    # stream lists exist from the start (initialCount 0); nested ones too: the tree is static
    for s in spec.all_streams:
        cur = data
        for k in s.path[:-1]:
            cur = cur[k]
        cur[s.path[-1]] = []
    return data


def run_graph(spec, sched_tape, prop):
    sim = Sim(sched_tape)
    early = bool(sched_tape.draw(2, "w2_early"))
    capacity = (100, 1, 2, 3)[sched_tape.draw(4, "w2_cap")]
    pull = ("eager", "gated", "lazy")[sched_tape.draw(3, "w2_pull")]
    world = World2(sim, spec, early, capacity)
    ctx = Ctx(world)
    labels_parent = {g.label: (g.parent.label if g.parent else None) for g in spec.all_groups}
    mon = Monitor(labels_parent, lenient=True)  # keep going: a known deviation must not hide others
    out = {"payloads": [], "protocol_error": None, "ended": False, "error": None,
           "waiting": None, "mon": mon, "ctx": ctx, "world": world,
           "knobs": {"early": early, "capacity": capacity, "pull": pull}}

    async def main():
        try:
            work = world.build(spec.initial)
            res = IncrementalPublisher().build_response(initial_data(spec), None, work, ctx)
        except Exception as e:  # noqa: BLE001
            out["error"] = e
            return
        ini = res.initial_result.formatted
        out["payloads"].append(ini)
        try:
            mon.on_initial(ini)
        except ProtocolError as pe:
            out["protocol_error"] = pe
        it = res.subsequent_results
        k = 0
        while True:
            if pull != "eager":
                out["waiting"] = "gate"
                ext = sim.external(f"gate:pull#{k}", "gate", ("value", None))
                ext.lazy = pull == "lazy"
                await ext.fut
            out["waiting"] = "anext"
            try:
                p = await it.__anext__()
            except StopAsyncIteration:
                out["waiting"] = None
                out["ended"] = True
                if out["protocol_error"] is None:
                    try:
                        mon.on_end()
                    except ProtocolError as pe:
                        out["protocol_error"] = pe
                return
            except Exception as e:  # noqa: BLE001
                out["waiting"] = None
                out["error"] = e
                return
            out["waiting"] = None
            f = p.formatted
            out["payloads"].append(f)
            if out["protocol_error"] is None:
                try:
                    mon.on_subsequent(f)
                except ProtocolError as pe:
                    out["protocol_error"] = pe
            k += 1
            if k > 300:
                out["error"] = RuntimeError("more than 300 payloads")
                return

    status = sim.run(main())
    out["status"] = status
    return sim, out


C04_ORACLES = {"value_lost_or_misplaced", "value_delivered_for_failed_fragment",
               "value_delivered_twice", "stream_items_lost", "stream_failed_spuriously",
               "stream_failure_not_reported", "group_failed_spuriously",
               "group_failure_not_reported", "escaped_exception"}


def check_graph(spec, sim, out, prop):
    vs = _check_graph(spec, sim, out, prop)
    if prop == "C04":
        return [v for v in vs if v.oracle in C04_ORACLES]
    return [v for v in vs if v.oracle not in C04_ORACLES or v.oracle == "escaped_exception"]


def _check_graph(spec, sim, out, prop):
    vs = []
    mon = out["mon"]
    if out["error"] is not None:
        vs.append(Violation(prop, "escaped_exception", {"world": "W2",
                            "type": type(out["error"]).__name__}, {"error": repr(out["error"])}))
        return vs
    seen_pe = set()
    for pe in mon.protocol_errors:
        fp = {"rule": pe.rule, "what": pe.what, "world": "W2"}
        if pe.what == "completed_for_never_announced_id_with_errors":
            fp["ancestor_failed_earlier"] = _ancestor_failed_earlier(spec, out["payloads"], pe)
        key_ = (pe.rule, pe.what, fp.get("ancestor_failed_earlier"))
        if key_ in seen_pe:
            continue
        seen_pe.add(key_)
        vs.append(Violation(prop, "protocol", fp,
                            {"detail": pe.detail, "payloads": out["payloads"][-4:]}))
    if not out["ended"]:
        vs.append(Violation(prop, "no_termination", {"waiting": out["waiting"], "world": "W2"},
                            {"pending_ids": list(mon.pending.values()),
                             "payloads": out["payloads"][-4:], "status": out["status"]}))
        return vs
    # each computation ran at most once
    for t in spec.all_tasks:
        if t.ran > 1:
            vs.append(Violation(prop, "task_ran_twice", {"world": "W2"}, {"task": t.tid}))
            return vs
    def items_seen(s):
        okp, lst = _walk(mon.data, s.path)
        return len(lst) if okp and isinstance(lst, list) else 0

    delivered, ok, exists_g, exists_s, tasks_of = expected(spec, items_seen)
    # conservation: every task value that must be delivered is at its path, exactly there
    found = {}

    def scan(node, path):
        if isinstance(node, dict):
            for k, v in node.items():
                if k.startswith("t") and k[1:].isdigit():
                    found.setdefault(int(k[1:]), []).append(path)
                else:
                    scan(v, path + (k,))

    scan(mon.data, ())
    # creation order, so that the root cause is reported before its consequences
    for t in sorted(spec.all_tasks, key=lambda t: t.tid):
        where = found.get(t.tid, [])
        if t in delivered:
            if where != [t.path]:
                announced = {pe_.get("label") for _i, pe_ in _all_pending(out["payloads"])}
                vs.append(Violation(prop, "value_lost_or_misplaced",
                                    {"world": "W2", "kind": "lost" if not where else "misplaced",
                                     "shared": len(t.groups) > 1,
                                     "deliverable_fragment_announced": any(
                                         ok(g) and g.label in announced for g in t.groups)},
                                    {"task": t.tid, "expected_path": list(t.path),
                                     "found_at": [list(p) for p in where],
                                     "payloads": out["payloads"][-6:]}))
                return vs
        elif where:
            vs.append(Violation(prop, "value_delivered_for_failed_fragment", {"world": "W2"},
                                {"task": t.tid, "found_at": [list(p) for p in where]}))
            return vs
    # each delivered value appears in exactly one incremental entry
    seen = {}
    for p in out["payloads"][1:]:
        for inc in p.get("incremental") or ():
            if "data" in inc:
                for k in _task_keys(inc["data"]):
                    seen[k] = seen.get(k, 0) + 1
    dup = [k for k, n in seen.items() if n > 1]
    if dup:
        vs.append(Violation(prop, "value_delivered_twice", {"world": "W2"}, {"tasks": dup[:3]}))
        return vs
    # streams: items in order without gaps; full when the stream succeeded
    for s in spec.all_streams:
        okp, lst = _walk(mon.data, s.path)
        if not okp or not isinstance(lst, list):
            continue
        if lst != list(range(len(lst))):
            vs.append(Violation(prop, "protocol", {"rule": 6, "what": "stream_items_out_of_order",
                                                   "world": "W2"},
                                {"stream": s.label, "items": lst}))
            return vs
        lim = s.n_items if s.fail_after is None else min(s.fail_after, s.n_items)
        if len(lst) > lim:
            vs.append(Violation(prop, "protocol", {"rule": 6, "what": "stream_items_beyond_end",
                                                   "world": "W2"}, {"stream": s.label, "items": lst}))
            return vs
    # announced streams: completed with errors iff their source failed; all items when not
    by_label = {pe_.get("label"): i for i, pe_ in _all_pending(out["payloads"])}
    for s in spec.all_streams:
        i = by_label.get(s.label)
        if i is None:
            continue
        errs = mon.done.get(i)
        okp, lst = _walk(mon.data, s.path)
        if s.fail_after is None:
            if errs:
                vs.append(Violation(prop, "stream_failed_spuriously", {"world": "W2"},
                                    {"stream": s.label, "errors": errs}))
                return vs
            if lst != list(range(s.n_items)):
                vs.append(Violation(prop, "stream_items_lost", {"world": "W2"},
                                    {"stream": s.label, "items": lst, "expected": s.n_items}))
                return vs
        elif not errs:
            vs.append(Violation(prop, "stream_failure_not_reported", {"world": "W2"},
                                {"stream": s.label}))
            return vs
    # announced groups: failed iff not ok
    by_glabel = {pe_.get("label"): i for i, pe_ in _all_pending(out["payloads"])}
    for g in spec.all_groups:
        i = by_glabel.get(g.label)
        if i is None:
            continue
        errs = mon.done.get(i)
        if ok(g) and errs:
            vs.append(Violation(prop, "group_failed_spuriously", {"world": "W2"},
                                {"group": g.label, "errors": errs}))
            return vs
        if not ok(g) and not errs:
            vs.append(Violation(prop, "group_failure_not_reported", {"world": "W2"},
                                {"group": g.label}))
            return vs
    return vs


def _ancestor_failed_earlier(spec, payloads, pe):
    """W2 knows its graph: the never-announced group behind a bogus `completed` entry is a group
    of the failing task named in the entry's error. Had an ancestor of it already been reported
    as failed in an earlier payload (so that its subtree should have been gone)?"""
    try:
        msgs = [e.get("message", "") for e in (pe.detail["entry"].get("errors") or ())]
        tids = {int(m[1:].split(" ")[0]) for m in msgs if m.startswith("T")}
        bogus_id = pe.detail["id"]
    except Exception:  # noqa: BLE001
        return "?"
    label_of = {}
    failed_at = {}  # label -> payload index of its completed-with-errors entry
    bogus_at = None
    rank = 0  # the entry is the rank-th never-announced completed entry naming these tasks
    for k, p in enumerate(payloads):
        for q in p.get("pending") or ():
            label_of[q["id"]] = q.get("label")
        for c in p.get("completed") or ():
            if c["id"] == bogus_id and c["id"] not in label_of and bogus_at is None:
                bogus_at = k
            elif c.get("errors") and c["id"] in label_of:
                failed_at.setdefault(label_of[c["id"]], k)
            elif (bogus_at is None and c["id"] not in label_of and c.get("errors")
                  and any(m.get("message", "") in msgs for m in c["errors"])):
                rank += 1  # an earlier bogus entry for the same failure
    if bogus_at is None:
        return "?"
    announced = set(label_of.values())
    live = dead = 0
    for t in spec.all_tasks:
        if t.tid not in tids:
            continue
        for g in t.groups:
            if g.label in announced:
                continue
            if any(a.label in failed_at and failed_at[a.label] < bogus_at for a in g.ancestors()):
                dead += 1
            else:
                live += 1
    # Every bogus entry that can be attributed to an unannounced group whose ancestors were all
    # still alive is the listed finding; only entries beyond those must belong to a group whose
    # subtree should have been gone (a task may sit in groups of both kinds).
    return dead > 0 and rank >= live


def _task_keys(data):
    out = []
    if isinstance(data, dict):
        for k, v in data.items():
            if k.startswith("t") and k[1:].isdigit():
                out.append(k)
            else:
                out += _task_keys(v)
    return out


def _all_pending(payloads):
    for p in payloads:
        for pe_ in p.get("pending") or ():
            yield pe_["id"], pe_


def _walk(data, path):
    cur = data
    for k in path:
        if isinstance(cur, dict) and k in cur:
            cur = cur[k]
        else:
            return False, None
    return True, cur


def run_unit(seed=None, unit=None, tier="quick", stats=None, prop="C05"):
    n_sched = 6 if tier == "quick" else 12
    if unit is not None:
        ptape = Tape(values=unit["plan"])
        sched_values = unit["scheds"]
    else:
        ptape = Tape((seed, "w2plan"))
        sched_values = None
    info = {"pairs": [], "digest": None, "sample": None, "render": None}
    violations = []
    digests = []
    sched_tapes = []
    n = n_sched if sched_values is None else len(sched_values)
    rendered = None
    shape = None
    max_ext = 0
    for r in range(n):
        # the spec holds per-run mutable state (library objects), so rebuild it for every run
        pt = Tape(values=ptape.used()) if r else ptape
        spec = GraphSpec(pt, big=tier == "thorough")
        if r == 0:
            rendered = spec.render()
            shape = spec.shape()
            digests.append(rendered)
            if stats is not None:
                bump(stats, "w2_shapes", "graphs")
                bump(stats, "w2_shapes", "groups", shape[0])
                bump(stats, "w2_shapes", "tasks", shape[1])
                bump(stats, "w2_shapes", "streams", shape[2])
                bump(stats, "w2_shapes", "shared_tasks", shape[3])
                bump(stats, "w2_shapes", "failing_tasks", shape[4])
                bump(stats, "w2_shapes", "failing_streams", shape[5])
                bump(stats, "w2_shapes", "streams_failing_by_item",
                     sum(1 for s_ in spec.all_streams if s_.fail_by_item))
        st = (Tape(values=sched_values[r]) if sched_values is not None
              else Tape((seed, "w2sched", r)))
        sched_tapes.append(st)
        sim, out = run_graph(spec, st, prop)
        bump(stats, "counts", "w2_runs")
        if stats is not None:
            stats["polls"] = stats.get("polls", 0) + sim.poll
            stats["externals"] = stats.get("externals", 0) + len(sim.externals)
            stats["fires"] = stats.get("fires", 0) + sim.fire_count
            bump(stats, "modes", sim.mode)
            bump(stats, "ext_hist", min(len(sim.externals), 40))
            for f in out["mon"].features:
                bump(stats, "probes", "w2_" + f)
            bump(stats, "probes", "w2_payloads", out["mon"].n_payloads)
            bump(stats, "probes", "w2_items_pushed_behind_failing_item",
                 out["world"].pushed_behind_failure)
            bump(stats, "probes", "w2_nesting_rule_checked", out["mon"].nesting_checked)
            bump(stats, "probes", "w2_leftover_tasks", 1 if sim.unfinished_tasks() else 0)
        max_ext = max(max_ext, sum(1 for e in sim.externals if e.kind != "gate"))
        vs = check_graph(spec, sim, out, prop)
        if out["status"] == "stepcap":
            vs.append(Violation(prop, "livelock", {"world": "W2"}, {"polls": sim.poll}))
        for v in vs:
            v.detail["sched_index"] = r
            v.detail["knobs"] = out["knobs"]
            v.detail["decisions"] = sim.decision_trace[:60]
        violations += vs
        sd = sim.digest()
        digests.append(sd)
        digests.append(out["payloads"])
        info["pairs"].append(pair_hash(mix(repr(rendered)), sd))
        if info["sample"] is None:
            info["sample"] = {"world": "W2", "graph": rendered, "knobs": out["knobs"],
                              "scheduler": sim.mode, "payloads": out["payloads"][:6]}
        sim.close()
    # event-order sweep: for small graphs walk *all* sequences of "which pending external
    # (task result, stream item, source step, pull) completes next", one completion per idle
    # point, under three knob settings; exact odometer over a ScriptTape, bounded; a policy inside
    # the seeded search, reported separately, not a claim about anything larger
    if (unit is None and seed is not None and (seed[2] // 2) % 2 == 0 and not violations
            and 2 <= max_ext <= 7):
        swept = 0
        done_cfgs = 0
        for early_, cap_, pull_ in ((0, 0, 0), (1, 0, 0), (1, 1, 1)):
            picks = []
            complete = False
            while swept < 400:
                # mode=choice, fire_den=1, immediate delivery; then the W2 knobs
                st = ScriptTape([0, 4, 0, 0, early_, cap_, pull_], picks)
                spec = GraphSpec(Tape(values=ptape.used()), big=tier == "thorough")
                sim, out = run_graph(spec, st, prop)
                swept += 1
                bump(stats, "counts", "w2_runs")
                vs = check_graph(spec, sim, out, prop)
                if out["status"] == "stepcap":
                    vs.append(Violation(prop, "livelock", {"world": "W2"}, {"polls": sim.poll}))
                for v in vs:
                    v.fingerprint["sweep"] = True
                    v.detail["sched_index"] = len(sched_tapes)
                    v.detail["knobs"] = out["knobs"]
                    v.detail["decisions"] = sim.decision_trace[:60]
                    v.detail["sweep_picks"] = list(picks)
                info["pairs"].append(pair_hash(mix(repr(rendered)), sim.digest()))
                sim.close()
                if vs:
                    violations += vs
                    sched_tapes.append(st)
                    break
                picks = next_script(st.trace)
                if picks is None:
                    complete = True
                    break
            if violations:
                break
            if complete:
                done_cfgs += 1
        bump(stats, "probes", "w2_event_order_sweep_runs", swept)
        if done_cfgs == 3:
            bump(stats, "probes", "w2_event_order_sweeps_completed")
    info["unit"] = {"world": "W2", "plan": ptape.used(), "scheds": [t.used() for t in sched_tapes]}
    info["digest"] = digest_of(digests)
    info["render"] = {"graph": rendered}
    return violations, info
