"""Shared driver for incremental-delivery runs (C04, C05-W1, C06)."""
from __future__ import annotations

import asyncio

from graphql import ExecutionResult
from graphql.execution import experimental_execute_incrementally
from graphql.execution import ExperimentalIncrementalExecutionResults
from graphql.execution.incremental.incremental_executor import IncrementalExecutor
from graphql.execution.incremental.stream_item_queue import StreamItemQueue
from graphql.pyutils import is_awaitable

from sim import alloc
from sim.harness import Request
from sim.incremental import Monitor, ProtocolError
from sim.loop import Sim

_DEFAULTS = StreamItemQueue.__init__.__defaults__

# Probe seam (this process only): which awaitables did the executor start to await through
# with_abort_signal()?  An awaitable that got that far cannot have been abandoned by a task
# that was cancelled before its first step.
REACHED_AWAIT = {}  # id -> the awaitable itself (kept alive: ids must not be reused within a run)
_orig_with_abort_signal = IncrementalExecutor.__mro__[1].with_abort_signal


def _recording_with_abort_signal(self, awaitable):
    # with_abort_signal() is a coroutine function: calling it awaits nothing yet. The awaitable
    # counts as reached only once that coroutine has really started (a coroutine handed to a
    # task that is cancelled before its first step never runs).
    coro = _orig_with_abort_signal(self, awaitable)

    async def started():
        REACHED_AWAIT[id(awaitable)] = awaitable
        return await coro

    return started()


IncrementalExecutor.__mro__[1].with_abort_signal = _recording_with_abort_signal

# Probe seam: at which loop iteration was a stream item queue created?
_CURRENT = {"sim": None}
_orig_queue_init = StreamItemQueue.__init__


def _recording_queue_init(self, *args, **kwargs):
    sim = _CURRENT["sim"]
    self._verif_created_poll = sim.poll if sim is not None else -1
    _orig_queue_init(self, *args, **kwargs)


StreamItemQueue.__init__ = _recording_queue_init
CAPACITIES = (100, 1, 2, 3)
PULLS = ("eager", "gated", "lazy")


class Knobs:
    def __init__(self, tape):
        self.early = bool(tape.draw(2, "early"))
        self.capacity = CAPACITIES[tape.draw(len(CAPACITIES), "capacity")]
        self.pull = PULLS[tape.draw(len(PULLS), "pull")]
        self.alloc = ("fresh", "lifo", "random")[tape.draw(3, "alloc")]

    def render(self):
        return {"early": self.early, "capacity": self.capacity, "pull": self.pull,
                "alloc": self.alloc}


class RunResult:
    def __init__(self):
        self.executor = None  # root executor (read-only probe access to shared sets)
        self.cleanup_poll = None  # loop iteration at which the final cleanup could start
        self.kind = None  # single | incremental | raised
        self.payloads = []
        self.monitor = None
        self.protocol_error = None
        self.error = None
        self.ended = False  # consumer saw StopAsyncIteration
        self.stopped = False  # consumer closed the stream itself
        self.pulls = 0
        self.waiting = None  # what the consumer is blocked on when the run went idle
        self.single = None
        self.stop_error = None
        self.hook_calls = 0
        self.hook_snapshots = []


def set_capacity(cap):
    _orig_queue_init.__defaults__ = (_DEFAULTS[0], _DEFAULTS[1], cap)


def reset_capacity():
    _orig_queue_init.__defaults__ = _DEFAULTS


def run_incremental(scn, sched_tape, stop_factory=None, step_cap=None, lenient=False,
                    force_early=None, force_capacity=None):
    """Run every request of the scenario concurrently on one SimLoop.

    stop_factory(sim, tape, i, rs, req, rr) -> Stop object or None (C06).
    """
    sim = Sim(sched_tape, step_cap)
    REACHED_AWAIT.clear()
    _CURRENT["sim"] = sim
    knobs = Knobs(sched_tape)
    if force_early is not None:
        knobs.early = force_early
    if force_capacity is not None:
        knobs.capacity = force_capacity
    al = alloc.SimAllocator(knobs.alloc, sched_tape)
    reqs = [Request(sim, i, scn.world, rs.planner, root=rs.root)
            for i, rs in enumerate(scn.requests)]
    results = [RunResult() for _ in reqs]
    stops = [None] * len(reqs)
    if stop_factory is not None:
        for i, rs in enumerate(scn.requests):
            stops[i] = stop_factory(sim, sched_tape, i, rs, reqs[i], results[i])

    async def consume(i):
        rs, req, rr, stop = scn.requests[i], reqs[i], results[i], stops[i]
        kwargs = {}
        if stop is not None:
            kwargs = stop.exec_kwargs()
        class Recording(IncrementalExecutor):
            """The stock incremental executor; only remembers the root instance for probes."""

            def __init__(self, *a, **k):
                super().__init__(*a, **k)
                if rr.executor is None:
                    rr.executor = self

        try:
            rr.waiting = "execute"
            res = experimental_execute_incrementally(
                scn.world.schema, rs.doc, rs.root, req, rs.variables, rs.opname,
                enable_early_execution=knobs.early, executor_class=Recording, **kwargs)
            if is_awaitable(res):
                res = await res
        except Exception as e:  # noqa: BLE001
            rr.kind = "raised"
            rr.error = e
            rr.waiting = None
            if stop is not None:
                await stop.on_execute_error(e, rr)
            return
        rr.waiting = None
        if isinstance(res, ExecutionResult):
            rr.kind = "single"
            rr.single = res.formatted
            rr.cleanup_poll = sim.poll
            if stop is not None and hasattr(stop, "on_end"):
                stop.on_end()
            return
        assert isinstance(res, ExperimentalIncrementalExecutionResults)
        rr.kind = "incremental"
        mon = Monitor(rs.gen.labels_parent, lenient=lenient)
        rr.monitor = mon
        initial = res.initial_result.formatted
        rr.payloads.append(initial)
        try:
            mon.on_initial(initial)
        except ProtocolError as pe:
            rr.protocol_error = pe
        it = res.subsequent_results
        k = 0
        while True:
            if (stop is not None and getattr(stop, "close_delay", False)
                    and stop.kind == "aclose" and k == stop.close_after):
                # the consumer closes some time after payload k, not in the very step it arrived
                rr.waiting = "gate"
                await sim.external(f"gate:{i}:close", "gate", ("value", None), owner=i).fut
                rr.waiting = None
            if stop is not None and stop.close_now(k):
                rr.waiting = "aclose"
                rr.stopped = True
                rr.cleanup_poll = sim.poll
                try:
                    await it.aclose()
                except Exception as e:  # noqa: BLE001
                    rr.stop_error = e
                rr.waiting = None
                break
            if knobs.pull != "eager":
                rr.waiting = "gate"
                ext = sim.external(f"gate:{i}:pull#{k}", "gate", ("value", None), owner=i)
                ext.lazy = knobs.pull == "lazy"
                close_fut = getattr(stop, "close_fut", None)
                if close_fut is not None:
                    # stop-instant sweep: the same pending set as the base run; whichever is first
                    await asyncio.wait({ext.fut, close_fut}, return_when=asyncio.FIRST_COMPLETED)
                    if close_fut.done():
                        continue
                else:
                    await ext.fut
            rr.waiting = "anext"
            rr.cleanup_poll = sim.poll  # (the pull after the last payload runs the cleanup)
            try:
                p = await it.__anext__()
            except StopAsyncIteration:
                rr.waiting = None
                rr.ended = True
                if stop is not None and hasattr(stop, "on_end"):
                    stop.on_end()
                if rr.protocol_error is None:
                    try:
                        mon.on_end()
                    except ProtocolError as pe:
                        rr.protocol_error = pe
                break
            except Exception as e:  # noqa: BLE001
                rr.waiting = None
                rr.error = e
                break
            rr.waiting = None
            rr.pulls += 1
            f = p.formatted
            rr.payloads.append(f)
            if rr.protocol_error is None:
                try:
                    mon.on_subsequent(f)
                except ProtocolError as pe:
                    rr.protocol_error = pe
            k += 1
            if k > 500:
                rr.error = RuntimeError("more than 500 payloads")
                break

    async def main():
        tasks = [sim.loop.create_task(consume(i), name=f"consumer{i}") for i in range(len(reqs))]
        for t in tasks:
            try:
                await t
            except Exception as e:  # noqa: BLE001 - harness failure, surfaces as error
                results[tasks.index(t)].error = e

    set_capacity(knobs.capacity)
    alloc.activate(al)
    try:
        status = sim.run(main())
    finally:
        alloc.deactivate()
        reset_capacity()
    return sim, reqs, results, status, knobs, al, stops
