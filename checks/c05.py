"""C05 — the incremental payload stream obeys the delivery protocol (DESIGN §4-C05).

Two workloads share this check: (i) end-to-end requests with @defer/@stream on SimLoop
(W1), every payload fed to the protocol monitor; (ii) synthetic work graphs driven directly
through WorkQueue / IncrementalPublisher / StreamItemQueue (W2, checks/microworld.py).
"""
from __future__ import annotations

from sim.incremental import _is_prefix, _walk
from sim.oracle import Violation
from sim.scenario import build_scenario
from sim.tape import Tape

from .c04 import account
from .common import base_evidence, bump, digest_of, pair_hash
from .incremental import run_incremental

PROP = "C05"

try:
    from . import microworld
except ImportError:  # pragma: no cover - W2 not built yet
    microworld = None


def protocol_violations(results, status, stats=None):
    vs = []
    for i, rr in enumerate(results):
        if rr.kind != "incremental":
            continue
        seen_pe = set()
        for pe in rr.monitor.protocol_errors:
            if pe.what == "defer_target_not_an_object" and isinstance(pe.detail, dict):
                # was the missing target object created by a later payload after all?
                ok_, target_ = _walk(rr.monitor.data, pe.detail.get("path") or ())
                if ok_ and isinstance(target_, dict):
                    pe.what = "defer_target_created_by_later_payload"
            if pe.what == "stream_target_not_a_list" and isinstance(pe.detail, dict):
                ok_, target_ = _walk(rr.monitor.data, pe.detail.get("path") or ())
                if ok_ and isinstance(target_, list):
                    pe.what = "stream_target_created_by_later_payload"
            fp = {"rule": pe.rule, "what": pe.what, "world": "W1"}
            if pe.what in ("defer_target_not_an_object", "stream_target_not_a_list") \
                    and isinstance(pe.detail, dict):
                # did a fragment at an enclosing path fail? (the object may have been withheld
                # with it: the listed lost-value finding seen from the protocol side)
                tp = tuple(pe.detail.get("path") or ())
                fp["enclosing_fragment_failed"] = any(
                    _is_prefix(tuple(q["path"]), tp) for q in rr.monitor.failed.values())
            key_ = (pe.rule, pe.what, fp.get("enclosing_fragment_failed"))
            if key_ in seen_pe:
                continue
            seen_pe.add(key_)
            vs.append(Violation(PROP, "protocol", fp,
                                {"request": i, "detail": pe.detail, "payloads": rr.payloads[-4:]}))
        if not rr.ended and not rr.stopped and rr.error is None:
            mon = rr.monitor
            vs.append(Violation(PROP, "no_termination",
                                {"waiting": rr.waiting, "world": "W1"},
                                {"request": i, "pending_ids": list(mon.pending.values()),
                                 "payloads": rr.payloads[-4:], "status": status}))
    return vs


def run_unit(seed=None, unit=None, tier="quick", stats=None):
    if unit is not None:
        world = unit.get("world", "W1")
    else:
        world = "W2" if (microworld is not None and seed[2] % 2 == 1) else "W1"
    if world == "W2":
        return microworld.run_unit(seed=seed, unit=unit, tier=tier, stats=stats, prop=PROP)
    n_sched = 3 if tier == "quick" else 6
    if unit is not None:
        ptape = Tape(values=unit["plan"])
        sched_values = unit["scheds"]
    else:
        ptape = Tape((seed, "plan"))
        sched_values = None
    big = tier == "thorough"
    scn = build_scenario(ptape, incremental=True, max_requests=2, want_r0=True,
                         max_depth=5 if big else 4, budget=40 if big else 28)
    info = {"pairs": [], "digest": None, "sample": None, "render": None}
    if not scn.requests:
        bump(stats, "counts", "rejected")
        info["unit"] = {"world": "W1", "plan": ptape.used(), "scheds": []}
        info["digest"] = "rejected"
        return [], info
    for rs in scn.requests:
        for k, n in rs.planner.fault_kinds.items():
            bump(stats, "faults", k, n)
    violations = []
    digests = [scn.digest()]
    sched_tapes = []
    n = n_sched if sched_values is None else len(sched_values)
    for r in range(n):
        st = (Tape(values=sched_values[r]) if sched_values is not None
              else Tape((seed, "sched", r)))
        sched_tapes.append(st)
        sim, reqs, results, status, knobs, al, _stops = run_incremental(scn, st, lenient=True)
        bump(stats, "counts", "w1_execs", len(reqs))
        account(stats, sim, knobs, al, results)
        vs = protocol_violations(results, status, stats)
        if status == "stepcap":
            vs.append(Violation(PROP, "livelock", {"world": "W1"}, {"polls": sim.poll}))
        for v in vs:
            v.detail["sched_index"] = r
            v.detail["knobs"] = knobs.render()
            v.detail["decisions"] = sim.decision_trace[:60]
        violations += vs
        sd = sim.digest()
        digests.append(sd)
        digests.append([rr.payloads for rr in results])
        if any(rr.kind == "incremental" for rr in results):
            info["pairs"].append(pair_hash(digests[0], sd))
            bump(stats, "counts", "w1_incremental_runs")
        if info["sample"] is None and any(rr.kind == "incremental" for rr in results):
            j = next(j for j, rr in enumerate(results) if rr.kind == "incremental")
            info["sample"] = {
                "world": "W1", "document": scn.requests[j].text,
                "plan": scn.requests[j].planner.render()[:10], "knobs": knobs.render(),
                "scheduler": sim.mode, "payloads": results[j].payloads[:6],
            }
        sim.close()
    info["unit"] = {"world": "W1", "plan": ptape.used(), "scheds": [t.used() for t in sched_tapes]}
    info["digest"] = digest_of(digests)
    info["render"] = scn.render()
    return violations, info


def evidence(stats, units, distinct, samples, tier, seed, wall, violations):
    c = stats.get("counts", {})
    stats = dict(stats)
    stats["rejected"] = c.get("rejected", 0)
    evaluations = c.get("w1_execs", 0) + c.get("w2_runs", 0)
    return base_evidence(
        PROP, tier, seed, wall, violations, evaluations, distinct,
        "units alternate between W1 (generated @defer/@stream request executed end-to-end on "
        "SimLoop under several seeded schedules x early execution x queue capacity x pull policy) "
        "and W2 (tape-drawn work graph of groups/tasks/streams driven directly through WorkQueue + "
        "IncrementalPublisher + real StreamItemQueues with seeded completion order, failures and "
        "nested work). Every payload (W1, W2) and every WorkQueue event batch (W2) is fed to a "
        "protocol monitor (ids announced once before data, never reused, targets exist, each id "
        "completed exactly once, no child announced under a pending parent, stream order, hasNext). "
        "This samples the trace space; it is not the bounded-exhaustive enumeration the property "
        "text suggests. Distinct = (scenario/graph digest, event-log digest) of runs that produced "
        "an incremental response.",
        samples, stats,
        extra={"units": units, "w1_executions": c.get("w1_execs", 0),
               "w1_incremental_runs": c.get("w1_incremental_runs", 0),
               "w2_runs": c.get("w2_runs", 0), "knobs": stats.get("knobs", {}),
               "w2_graph_shapes": stats.get("w2_shapes", {}),
               "payloads_per_run_histogram": stats.get("payload_hist", {})},
        assumptions=[
            "protocol monitor (sim/incremental.py) implements the incremental delivery format rules",
            "W2 only builds work graphs the executor's production rules can produce",
            "nesting rule for W1 is evaluated only where the label -> parent-label map is a function",
        ],
    )
