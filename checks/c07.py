"""C07 — a subscription maps source events to responses one-to-one and in order (DESIGN §4-C07)."""
from __future__ import annotations

import asyncio

from graphql import ExecutionResult, parse, subscribe, validate
from graphql.pyutils import AbortController, is_awaitable

from sim import alloc
from sim.harness import Request, attach, make_exc, pstr
from sim.loop import Sim
from sim.model import ArgError, Model, coerce_args, coerce_variables
from sim.oracle import Violation, check_invocations, check_response, exact_equal
from sim.plan import EXC_KINDS, PlanConfig, Planner
from sim.scenario import TYPE_MODES, World
from sim.tape import Tape, mix
from sim.world import Data, DocGen, SchemaSpec, build_world_schema

from .common import base_evidence, bump, digest_of, pair_hash

PROP = "C07"
SHAPES = ("class", "agen", "push", "class_noclose")
CREATE_FAULTS = (None, None, None, None, "raise", "ret_exc", "not_iterable", "async_raise")


class SourcePlan:
    def __init__(self, tape):
        self.shape = SHAPES[tape.draw(len(SHAPES), "src_shape")]
        self.n_events = tape.weighted((1, 2, 3, 3, 2, 1), "n_events")
        self.fail_after = None
        if tape.draw(4, "src_fail") == 3:
            self.fail_after = tape.draw(self.n_events + 1, "src_failk")
        self.exc = tape.draw(len(EXC_KINDS), "src_exc")
        self.create_fault = CREATE_FAULTS[tape.draw(len(CREATE_FAULTS), "create_fault")]
        self.create_async = bool(tape.draw(2, "create_async"))
        self.create_exc = tape.draw(len(EXC_KINDS), "create_exc")
        self.gated_emit = tuple(bool(tape.draw(2, "emit_gate")) for _ in range(self.n_events + 1))
        self.aclose_raises = tape.draw(4, "aclose_raises") == 3
        # payload shape: one event may be None itself (the selection set is then executed with
        # None as root value - not with the root value of the subscribe call)
        self.none_event = None
        if self.n_events and tape.draw(4, "none_event") == 0:
            self.none_event = tape.draw(self.n_events, "none_event_j")

    def produced(self):
        return self.n_events if self.fail_after is None else min(self.fail_after, self.n_events)

    def render(self):
        return {"shape": self.shape, "events": self.n_events, "fail_after": self.fail_after,
                "create_fault": self.create_fault, "create_async": self.create_async,
                "aclose_raises": self.aclose_raises, "none_event": self.none_event}


class Dispatcher:
    """context_value: routes resolver calls to the per-event Request (own plan per event)."""

    def __init__(self, sim, world, events, planners, none_event=None):
        self.sim = sim
        self.world = world
        self.events = events
        self.none_event = none_event  # index of the event delivered as None (at most one)
        self.per_event = [
            Request(sim, j, world, planners[j], root=events[j]) for j in range(len(planners))
        ]
        self.stray = []

    def _req(self, info):
        root = info.root_value
        j = root.get("__ev") if isinstance(root, dict) else None
        if root is None and self.none_event is not None:
            j = self.none_event
        if j is None or j >= len(self.per_event):
            self.stray.append(repr(root)[:60])
            return self.per_event[0] if self.per_event else None
        return self.per_event[j]

    def resolve(self, source, info, args):
        if source is None and info.path.prev is None and self.none_event is not None:
            # root field of the None event: the harness data of that event stands in for it
            source = self.events[self.none_event]
        return self._req(info).resolve(source, info, args)

    def resolve_type(self, value, info, abstract_type):
        return self._req(info).resolve_type(value, info, abstract_type)

    def is_type_of(self, tname, value, info):
        return self._req(info).is_type_of(tname, value, info)


class SourceState:
    def __init__(self):
        self.pulls = 0
        self.delivered = 0
        self.ended = False
        self.failed = False
        self.aclose_calls = 0
        self.pulled_after_end = 0
        self.started = False
        self.finalized = False


def make_source(sim, sp, events, src_exc, st):
    """The harness source event stream in the drawn shape."""
    n_prod = sp.produced()

    async def step(j):
        # completion of the j-th pull: event j, end, or failure
        if j < len(sp.gated_emit) and sp.gated_emit[j]:
            await sim.external(f"emit#{j}", "emit", ("value", None)).fut
        if sp.fail_after is not None and j == n_prod:
            st.failed = True
            raise src_exc
        if j >= sp.n_events:
            st.ended = True
            raise StopAsyncIteration
        st.delivered += 1
        sim.log("event", j)
        return None if j == sp.none_event else events[j]

    if sp.shape in ("class", "class_noclose"):
        class Src:
            def __init__(self):
                self.j = 0
                if sp.shape == "class":
                    self.aclose = self._aclose

            def __aiter__(self):
                return self

            async def __anext__(self):
                st.started = True
                st.pulls += 1
                if st.ended or st.failed:
                    st.pulled_after_end += 1
                    raise StopAsyncIteration
                j = self.j
                try:
                    ev = await step(j)
                finally:
                    pass
                self.j = j + 1
                return ev

            async def _aclose(self):
                st.aclose_calls += 1
                st.finalized = True
                if sp.aclose_raises:
                    raise RuntimeError("aclose failed")

        return Src()
    if sp.shape == "agen":
        async def agen():
            st.started = True
            try:
                j = 0
                while True:
                    st.pulls += 1
                    try:
                        ev = await step(j)
                    except StopAsyncIteration:
                        return
                    yield ev
                    j += 1
            finally:
                st.finalized = True

        return agen()
    # push: a producer task emits into a queue regardless of the consumer's pulls
    queue = asyncio.Queue()

    async def pump():
        for j in range(sp.n_events + 1):
            try:
                ev = await step(j)
            except StopAsyncIteration:
                queue.put_nowait(("end", None))
                return
            except Exception as e:  # noqa: BLE001
                queue.put_nowait(("fail", e))
                return
            queue.put_nowait(("event", ev))

    class PushSrc:
        def __init__(self):
            self.task = None

        def __aiter__(self):
            return self

        async def __anext__(self):
            st.started = True
            st.pulls += 1
            if self.task is None:
                self.task = sim.loop.create_task(pump(), name="pump")
            if st.ended or st.failed:
                if queue.empty():
                    st.pulled_after_end += 1
                    raise StopAsyncIteration
            kind, payload = await queue.get()
            if kind == "end":
                raise StopAsyncIteration
            if kind == "fail":
                raise payload
            return payload

        async def aclose(self):
            st.aclose_calls += 1
            st.finalized = True
            if self.task is not None and not self.task.done():
                self.task.cancel()

    return PushSrc()


def run_unit(seed=None, unit=None, tier="quick", stats=None):
    n_sched = 3 if tier == "quick" else 6
    if unit is not None:
        ptape = Tape(values=unit["plan"])
        sched_values = unit["scheds"]
    else:
        ptape = Tape((seed, "plan"))
        sched_values = None
    big = tier == "thorough"
    info = {"pairs": [], "digest": None, "sample": None, "render": None}
    with_directives = bool(ptape.draw(2, "sub_directives"))
    spec = SchemaSpec(ptape, with_directives)
    schema = build_world_schema(spec)
    type_mode = TYPE_MODES[ptape.weighted((3, 2, 2), "type_mode")]
    attach(schema, type_mode)
    data = Data(ptape.draw(1 << 16, "salt"))
    world = World(schema, spec, data, type_mode)
    # @defer/@stream may appear in a subscription only when disabled (if: false / false variable)
    gen = DocGen(ptape, spec, incremental=with_directives, disabled_only=True,
                 max_depth=4 if big else 3, budget=20 if big else 12)
    # one document in three carries a second operation: the subscription is then selected by
    # its operation name only
    extra = ptape.draw(3, "extra_op")
    if extra == 1:
        gen.operation("query")
    opname = gen.operation("subscription")
    if extra == 2:
        gen.operation("query")
    text = gen.document()
    doc = parse(text)
    if validate(schema, doc):
        bump(stats, "counts", "rejected")
        info["unit"] = {"plan": ptape.used(), "scheds": []}
        info["digest"] = "rejected"
        return [], info
    variables = gen.variables_for(opname)
    sp = SourcePlan(ptape)
    salt = data.salt
    events = [{"__oid": mix(salt, "ev", j) % 1000003, "__t": "Subscription", "__path": (),
               "__ev": j} for j in range(sp.n_events)]
    cfg = PlanConfig(ptape)
    planners = []
    models = []
    for j in range(sp.produced()):
        pl = Planner(ptape, cfg)
        m = Model(schema, doc, data, pl, type_mode)
        models.append(m.execute(opname, variables, events[j]))
        planners.append(pl)
        for k, n in pl.fault_kinds.items():
            bump(stats, "faults", k, n)
    # expected argument values of the subscribe resolver / creation failure by arg coercion
    op = models and None
    mtmp = Model(schema, doc, data, Planner(Tape(values=[]), cfg), type_mode)
    opnode = mtmp.operation(opname)
    root_field = opnode.selection_set.selections[0]
    fdef = schema.subscription_type.fields[root_field.name.value]
    coerced_vars = coerce_variables(schema, opnode, variables)
    try:
        sub_args = coerce_args(fdef.args, root_field, coerced_vars)
        arg_failure = False
    except ArgError:
        sub_args = None
        arg_failure = True
    # @skip/@include on the single root field can remove it: then nothing is subscribed
    root_included = mtmp_include(mtmp, opnode, root_field, coerced_vars)
    violations = []
    digests = [text, sp.render(), [p.render() for p in planners]]
    sched_tapes = []
    n = n_sched if sched_values is None else len(sched_values)
    bump(stats, "faults", "source:shape_" + sp.shape)
    if sp.fail_after is not None:
        bump(stats, "faults", "source:raise_mid_stream")
    if sp.create_fault:
        bump(stats, "faults", "create:" + sp.create_fault)
    for r in range(n):
        st_tape = (Tape(values=sched_values[r]) if sched_values is not None
                   else Tape((seed, "sched", r)))
        sched_tapes.append(st_tape)
        sim = Sim(st_tape)
        pull_gated = bool(st_tape.draw(2, "pull_gated"))
        policy = ("fresh", "lifo", "random")[st_tape.draw(3, "alloc")]
        al = alloc.SimAllocator(policy, st_tape)
        # an abort signal that is passed but never triggered: every pull from the source and every
        # awaitable is raced against it all the same, and nothing may change
        idle_signal = st_tape.draw(3, "idle_signal") == 0
        sub_kwargs = {"abort_signal": AbortController().signal} if idle_signal else {}
        bump(stats, "knobs", "abort_signal_passed_never_triggered", 1 if idle_signal else 0)
        disp = Dispatcher(sim, world, events, planners, sp.none_event)
        sst = SourceState()
        src_exc = make_exc(sp.exc, "SRC", ())
        create_exc = make_exc(sp.create_exc, "CREATE", ())
        seen_args = []
        seen_paths = []
        out = {"kind": None, "responses": [], "end": None, "error": None, "waiting": None,
               "result": None}

        def sub_resolver(root, info_, **args):
            seen_args.append(args)
            seen_paths.append(info_.path.as_list())
            cf = sp.create_fault
            if cf == "raise":
                raise create_exc
            if cf == "ret_exc":
                value = create_exc
            elif cf == "not_iterable":
                value = 12345
            else:
                value = make_source(sim, sp, events, src_exc, sst)
            if sp.create_async or cf == "async_raise":
                outcome = ("raise", create_exc) if cf == "async_raise" else ("value", value)
                return sim.external("subscribe", "res", outcome).fut
            return value

        async def main():
            try:
                out["waiting"] = "subscribe"
                res = subscribe(schema, doc, {"__oid": 1, "__t": "Root", "__path": ()}, disp,
                                variables, opname, subscribe_field_resolver=sub_resolver,
                                **sub_kwargs)
                if is_awaitable(res):
                    res = await res
                out["waiting"] = None
            except Exception as e:  # noqa: BLE001
                out["waiting"] = None
                out["kind"] = "raised"
                out["error"] = e
                return
            if isinstance(res, ExecutionResult):
                out["kind"] = "result"
                out["result"] = res.formatted
                return
            out["kind"] = "stream"
            k = 0
            while True:
                if pull_gated:
                    out["waiting"] = "gate"
                    await sim.external(f"pull#{k}", "gate", ("value", None)).fut
                out["waiting"] = "anext"
                try:
                    resp = await res.__anext__()
                except StopAsyncIteration:
                    out["waiting"] = None
                    out["end"] = "stop"
                    return
                except Exception as e:  # noqa: BLE001
                    out["waiting"] = None
                    out["end"] = "error"
                    out["error"] = e
                    return
                out["waiting"] = None
                sim.log("response", k)
                out["responses"].append(resp.formatted)
                k += 1
                if k > 50:
                    out["end"] = "too_many"
                    return

        alloc.activate(al)
        try:
            status = sim.run(main())
        finally:
            alloc.deactivate()
        bump(stats, "counts", "subscriptions")
        bump(stats, "counts", "responses", len(out["responses"]))
        root_key = root_field.alias.value if root_field.alias else root_field.name.value
        vs = check_run(sp, out, status, models, disp, sst, src_exc, create_exc, sub_args,
                       arg_failure, seen_args, root_included, root_key, seen_paths)
        if gen.features & {"stream", "defer"}:
            bump(stats, "probes", "disabled_defer_or_stream_in_subscription")
        if stats is not None:
            stats["polls"] = stats.get("polls", 0) + sim.poll
            stats["externals"] = stats.get("externals", 0) + len(sim.externals)
            stats["fires"] = stats.get("fires", 0) + sim.fire_count
            bump(stats, "modes", sim.mode)
            bump(stats, "ext_hist", min(len(sim.externals), 40))
            bump(stats, "probes", "result_kind_" + str(out["kind"]))
            bump(stats, "probes", "ended_by_" + str(out["end"]))
            bump(stats, "probes", "events_ahead_of_pulls",
                 1 if sp.shape == "push" and len(out["responses"]) > 1 else 0)
            bump(stats, "probes", "address_reuse_injected", al.reuses)
            bump(stats, "faults", "event_payload_none",
                 1 if sp.none_event is not None and sst.delivered > sp.none_event else 0)
            bump(stats, "probes", "responses_with_errors",
                 sum(1 for x in out["responses"] if x.get("errors")))
        for v in vs:
            v.detail["sched_index"] = r
            v.detail["source"] = sp.render()
            v.detail["decisions"] = sim.decision_trace[:40]
        violations += vs
        sd = sim.digest()
        digests.append(sd)
        digests.append([out["kind"], out["responses"], out["end"], repr(out["error"])])
        info["pairs"].append(pair_hash(mix(repr(digests[0:3])), sd))
        if info["sample"] is None:
            info["sample"] = {"document": text, "variables": variables, "source": sp.render(),
                              "plans": [p.render()[:6] for p in planners][:3],
                              "scheduler": sim.mode, "outcome": out["kind"],
                              "responses": out["responses"][:3], "end": out["end"],
                              "error": repr(out["error"])}
        sim.close()
    info["unit"] = {"plan": ptape.used(), "scheds": [t.used() for t in sched_tapes]}
    info["digest"] = digest_of(digests)
    info["render"] = {"sdl": spec.sdl(), "type_mode": type_mode, "document": text,
                      "variables": variables, "source": sp.render(),
                      "plans": [p.render() for p in planners]}
    return violations, info


def mtmp_include(model, opnode, root_field, coerced_vars):
    model.variables = coerced_vars
    return model._include(root_field)


def same_exception(a, b):
    return a is b or (type(a) is type(b) and str(a) == str(b))


def check_run(sp, out, status, models, disp, sst, src_exc, create_exc, sub_args, arg_failure,
              seen_args, root_included, root_key=None, seen_paths=()):
    vs = []
    fp = {"shape": sp.shape}
    if status == "stepcap":
        return [Violation(PROP, "livelock", fp, {})]
    if out["waiting"] is not None:
        return [Violation(PROP, "hang", dict(fp, blocked=out["waiting"]), {})]
    creation_fails = bool(sp.create_fault) or arg_failure
    if not root_included:
        # nothing to subscribe to: the library's behaviour here is outside what C07 states
        return vs
    if out["kind"] == "raised":
        return [Violation(PROP, "creation_failure_shape", dict(fp, got="exception",
                          fault=str(sp.create_fault)),
                          {"error": repr(out["error"])})]
    if creation_fails:
        if out["kind"] != "result":
            return [Violation(PROP, "creation_failure_shape",
                              dict(fp, got=str(out["kind"]), fault=str(sp.create_fault)), {})]
        res = out["result"]
        errs = res.get("errors") or []
        if res.get("data") is not None or len(errs) != 1:
            return [Violation(PROP, "creation_failure_shape",
                              dict(fp, got="wrong_result", fault=str(sp.create_fault)),
                              {"result": res})]
        if root_key is not None and errs[0].get("path") != [root_key]:
            return [Violation(PROP, "creation_failure_shape",
                              dict(fp, got="wrong_error_path", fault=str(sp.create_fault)),
                              {"result": res, "expected_path": [root_key]})]
        msg = errs[0].get("message", "")
        if sp.create_fault in ("raise", "ret_exc", "async_raise") and not arg_failure:
            exc_kind = EXC_KINDS[sp.create_exc % len(EXC_KINDS)]
            if exc_kind != "EmptyStr" and "CREATE" not in msg:
                return [Violation(PROP, "creation_failure_shape",
                                  dict(fp, got="unattributable_error", fault=sp.create_fault),
                                  {"result": res})]
        return vs
    if out["kind"] != "stream":
        return [Violation(PROP, "creation_failure_shape", dict(fp, got=str(out["kind"]),
                          fault="none"), {"result": out["result"]})]
    if seen_paths and root_key is not None and seen_paths[0] != [root_key]:
        vs.append(Violation(PROP, "subscribe_info_path", fp,
                            {"observed": seen_paths[0], "expected": [root_key]}))
    if seen_args and sub_args is not None and not exact_equal(seen_args[0], sub_args, False):
        vs.append(Violation(PROP, "subscribe_args_mismatch", fp,
                            {"observed": repr(seen_args[0]), "expected": repr(sub_args)}))
    n_expected = sp.produced()
    responses = out["responses"]
    if len(responses) != n_expected:
        vs.append(Violation(PROP, "count", dict(fp, kind="more" if len(responses) > n_expected
                                                else "fewer",
                                                source_failed=sp.fail_after is not None),
                            {"responses": len(responses), "events": n_expected,
                             "end": out["end"], "error": repr(out["error"])}))
        return vs
    if disp.stray:
        vs.append(Violation(PROP, "stray_root_value", fp, {"roots": disp.stray[:3]}))
    for j, resp in enumerate(responses):
        rv = check_response(PROP, resp, models[j], who=f"event")
        rv += check_invocations(PROP, disp.per_event[j], models[j], resp.get("data"), who="event")
        for v in rv:
            v.fingerprint["shape"] = sp.shape
            v.detail["event_index"] = j
            # errors of a neighbouring event showing up here are the interesting kind
            if v.oracle == "unattributable_error":
                others = [m for i, m in enumerate(models) if i != j]
                from sim.oracle import match_error
                leaked = any(match_error(e, m) is not None for e in v.detail["errors"]
                             for m in others)
                v.fingerprint["from_other_event"] = leaked
        vs += rv
        if rv:
            break
    if sp.fail_after is not None:
        if out["end"] != "error" or not same_exception(out["error"], src_exc):
            vs.append(Violation(PROP, "source_error_not_surfaced",
                                dict(fp, end=str(out["end"])),
                                {"error": repr(out["error"]), "expected": repr(src_exc)}))
    elif out["end"] != "stop":
        vs.append(Violation(PROP, "end_mismatch", dict(fp, end=str(out["end"])),
                            {"error": repr(out["error"])}))
    if sst.pulled_after_end:
        vs.append(Violation(PROP, "source_pulled_after_end", fp, {"pulls": sst.pulls}))
    return vs


def evidence(stats, units, distinct, samples, tier, seed, wall, violations):
    c = stats.get("counts", {})
    stats = dict(stats)
    stats["rejected"] = c.get("rejected", 0)
    return base_evidence(
        PROP, tier, seed, wall, violations, c.get("subscriptions", 0), distinct,
        "unit = one generated subscription document on the parametric schema, a source of 0-5 "
        "events in one of four shapes (class iterator with/without aclose, async generator, push "
        "queue fed by a producer task), optional failure while creating the source (raise / "
        "returned exception / non-iterable / failing awaitable) or mid-stream after k events, a "
        "delivery/fault plan per event, run through subscribe() on SimLoop under several seeded "
        "schedules of emissions, resolver completions and consumer pulls; every response is compared "
        "with the reference model's execution for its event (data incl. key order, attributable "
        "errors, nulled positions, invocations, arguments); count, order, error surfacing and end of "
        "stream are checked over the recorded history; an evaluation is one subscription run; "
        "distinct = (scenario digest, event-log digest)",
        samples, stats,
        extra={"units": units, "responses_checked": c.get("responses", 0)},
        assumptions=[
            "reference model (sim/model.py) for per-event execution",
            "a root field removed by @skip/@include leaves nothing to subscribe to; such runs are "
            "not judged",
        ],
    )
