"""C03 — the response does not depend on when resolvers complete (DESIGN §4-C03)."""
from __future__ import annotations

import asyncio

from graphql import execute
from graphql.pyutils import AbortController

from sim import alloc
from sim.harness import Request
from sim.loop import Sim
from sim.oracle import Violation, check_invocations, check_response, value_at
from sim.scenario import build_scenario
from sim.tape import ScriptTape, Tape, next_script

from .common import base_evidence, bump, digest_of, pair_hash

PROP = "C03"
ALLOC_POLICIES = ("fresh", "lifo", "random", "lifo")


def run_sync(scn):
    """(b): the real executor with every delivery forced synchronous."""
    out = []
    for i, rs in enumerate(scn.requests):
        req = Request(None, i, scn.world, rs.planner, force_sync=True)
        try:
            res = execute(scn.world.schema, rs.doc, rs.root, req, rs.variables, rs.opname)
            if asyncio.iscoroutine(res):
                res.close()
                out.append((req, None, "awaitable"))
                continue
            out.append((req, res.formatted, None))
        except Exception as e:  # noqa: BLE001
            out.append((req, None, e))
    return out


def run_async(scn, sched_tape, step_cap=None):
    sim = Sim(sched_tape, step_cap)
    policy = ALLOC_POLICIES[sched_tape.draw(len(ALLOC_POLICIES), "alloc")]
    al = alloc.SimAllocator(policy, sched_tape)
    reqs = [Request(sim, i, scn.world, rs.planner) for i, rs in enumerate(scn.requests)]
    results = [None] * len(reqs)
    # knob: an abort signal that is passed but never triggered (every awaitable is then raced
    # against it in a task of its own: other code paths, same required response)
    idle_signal = sched_tape.draw(4, "idle_signal") == 0
    sim.idle_signal = idle_signal
    controllers = [AbortController() if idle_signal else None for _ in reqs]

    async def one(i):
        rs = scn.requests[i]
        try:
            kw = {"abort_signal": controllers[i].signal} if idle_signal else {}
            res = execute(scn.world.schema, rs.doc, rs.root, reqs[i], rs.variables, rs.opname,
                          **kw)
            if asyncio.iscoroutine(res) or isinstance(res, asyncio.Future):
                res = await res
            results[i] = (res.formatted, None)
        except Exception as e:  # noqa: BLE001
            results[i] = (None, e)

    async def main():
        tasks = [sim.loop.create_task(one(i), name=f"req{i}") for i in range(len(reqs))]
        for t in tasks:
            await t

    alloc.activate(al)
    try:
        status = sim.run(main())
    finally:
        alloc.deactivate()
    return sim, reqs, results, status, al


def _strict_eligible(rs, key):
    """Subtree of root field `key` cannot orphan work: every injected fault sits on an
    asynchronously delivered position (so failures surface through the awaited gather path,
    which cancels and awaits siblings) and no list source fails."""
    pl = rs.planner
    # argument coercion errors are raised synchronously, whatever the delivery of the field
    # (a position served by the default resolver is not invoked either, and is a synchronous
    # failure only if it produced an error, i.e. null at a non-null position)
    defaults = getattr(rs.result, "default_paths", ())
    failed = {tuple(e.path) for e in rs.result.errors}
    if any(path[0] == key and (path not in defaults or path in failed)
           for path in getattr(rs.result, "no_invoke", ())):
        return False
    for path, fp in pl.fields.items():
        if path[0] == key and fp.fault and fp.delivery == "sync":
            return False
    for path, ip in pl.items.items():
        if path[0] == key and ip.fault and ip.delivery == "sync":
            return False
    for path, lp in pl.lists.items():
        if path[0] == key and lp.fail_after is not None:
            return False
    for path, ap in pl.abstr.items():
        if path[0] == key and ap.fault:
            if not _async_position(pl, path):
                return False
    for (path, _tn), ip in pl.istypes.items():
        if path[0] == key and (ip.fault or ip.delivery != "sync"):
            return False
    return True


def _async_position(pl, path):
    fp = pl.fields.get(path)
    if fp is not None:
        return fp.delivery != "sync"
    ip = pl.items.get(path)
    return ip is not None and ip.delivery != "sync"


def mutation_seriality(sim, req, rs, data):
    """Oracle 5: root field j starts only after root field i<j and its subtree completed.

    Work under a position that did not make it into the response (orphaned by a non-null
    failure) is exempt, except in subtrees that cannot orphan work (see _strict_eligible),
    where everything - including cancellation clean-up - must be over before j starts.
    """
    if rs.kind != "mutation" or data is None:
        return None
    keys = [p[0] for p in rs.result.order if len(p) == 1]
    inv_at = {}
    last_activity = {}
    last_any = {}
    for n, ev in enumerate(sim.events):
        if ev[0] == "inv" and ev[1] == req.idx:
            path = tuple(int(x) if x.isdigit() else x for x in ev[2].split("/")[1:])
            key = path[0]
            if len(path) == 1 and key not in inv_at:
                inv_at[key] = n
            last_any[key] = (n, ev)
            if _present(data, path):
                last_activity[key] = (n, ev)
    for e in sim.externals:
        if e.owner != req.idx or e.pos is None or e.fired_event is None or e.kind == "ito":
            continue
        key = e.pos[0]
        n = e.fired_event
        # an awaitable nobody waits for (abandoned by a task cancelled before its first step)
        # is not work of the subtree any more
        if e.awaited and (key not in last_any or last_any[key][0] < n):
            last_any[key] = (n, ("fire", e.label))
        if _present(data, e.pos):
            if key not in last_activity or last_activity[key][0] < n:
                last_activity[key] = (n, ("fire", e.label))
    for j in range(1, len(keys)):
        kj = keys[j]
        if kj not in inv_at:
            continue
        for i in range(j):
            ki = keys[i]
            la = last_activity.get(ki)
            if la is not None and la[0] > inv_at[kj]:
                return Violation(PROP, "mutation_overlap", {"later_started_before": "earlier_done"},
                                 {"earlier": ki, "later": kj, "event": list(map(str, la[1]))})
            if ki in inv_at and inv_at[ki] > inv_at[kj]:
                return Violation(PROP, "mutation_overlap", {"order": "reversed"},
                                 {"earlier": ki, "later": kj})
            la = last_any.get(ki)
            if la is not None and la[0] > inv_at[kj] and _strict_eligible(rs, ki):
                return Violation(PROP, "mutation_overlap",
                                 {"later_started_before": "earlier_cancelled_work_settled"},
                                 {"earlier": ki, "later": kj, "event": list(map(str, la[1]))})
    return None


def _present(data, path):
    found, parent = value_at(data, path[:-1])
    return found and parent is not None


def run_unit(seed=None, unit=None, tier="quick", stats=None):
    """One scenario under several schedules. Returns (violations, info)."""
    n_sched = 4 if tier == "quick" else 8
    if unit is not None:
        ptape = Tape(values=unit["plan"])
        sched_values = unit["scheds"]
    else:
        ptape = Tape((seed, "plan"))
        sched_values = None
    big = tier == "thorough"
    focus = None
    kinds = ("query", "mutation")
    if unit is not None:
        focus = unit.get("focus")
    elif seed[2] % 2 == 1:
        focus = "seriality"  # every second unit: mutation with all-async positions (oracle 5)
    if focus == "seriality":
        kinds = ("mutation",)
    scn = build_scenario(ptape, kinds=kinds, max_depth=5 if big else 4,
                         budget=40 if big else 26, focus=focus,
                         max_requests=1 if focus else 3)
    if focus:
        bump(stats, "counts", "seriality_focus_units")
    info = {"pairs": [], "digest": None, "sample": None, "render": None}
    if not scn.requests:
        bump(stats, "counts", "rejected")
        info["unit"] = {"plan": ptape.used(), "scheds": [], "focus": focus}
        info["digest"] = "rejected"
        return [], info
    violations = []
    digests = [scn.digest()]
    for rs in scn.requests:
        for k, n in rs.planner.fault_kinds.items():
            bump(stats, "faults", k, n)
    # (b) synchronous real execution vs model
    for (req, formatted, err), rs in zip(run_sync(scn), scn.requests):
        bump(stats, "counts", "sync_execs")
        if err is not None:
            violations.append(Violation(PROP, "escaped_exception", {
                "who": "sync", "type": type(err).__name__ if not isinstance(err, str) else err},
                {"error": repr(err)}))
            continue
        violations += check_response(PROP, formatted, rs.result, who="sync")
        violations += check_invocations(PROP, req, rs.result, formatted.get("data"), who="sync")
        digests.append(formatted)
    sched_tapes = []
    n = n_sched if sched_values is None else len(sched_values)
    orders = set()
    max_ext = 0
    for r in range(n):
        st = (Tape(values=sched_values[r]) if sched_values is not None
              else Tape((seed, "sched", r)))
        sched_tapes.append(st)
        sim, reqs, results, status, al = run_async(scn, st)
        bump(stats, "counts", "async_execs", len(reqs))
        vs = []
        if status == "stepcap":
            vs.append(Violation(PROP, "livelock", {}, {"polls": sim.poll}))
        for i, rs in enumerate(scn.requests):
            res = results[i]
            if res is None:
                vs.append(Violation(PROP, "hang", {"status": status}, {"request": i}))
                continue
            formatted, err = res
            if err is not None:
                vs.append(Violation(PROP, "escaped_exception",
                                    {"who": "async", "type": type(err).__name__},
                                    {"error": repr(err)}))
                continue
            rv = check_response(PROP, formatted, rs.result, who="async")
            for v in rv:
                if v.oracle == "data_mismatch":
                    v.fingerprint["memo_stale_hit"] = al.reuses > 0
            vs += rv
            vs += check_invocations(PROP, reqs[i], rs.result, formatted.get("data"), who="async")
            ms = mutation_seriality(sim, reqs[i], rs, formatted.get("data"))
            if ms is not None:
                vs.append(ms)
            if rs.kind == "mutation":
                bump(stats, "probes", "mutation_with_async_root",
                     1 if any(len(p) == 1 and rs.planner.fields[p].delivery != "sync"
                              for p in rs.result.order) else 0)
        if stats is not None:
            stats["polls"] = stats.get("polls", 0) + sim.poll
            stats["externals"] = stats.get("externals", 0) + len(sim.externals)
            stats["fires"] = stats.get("fires", 0) + sim.fire_count
            bump(stats, "modes", sim.mode)
            bump(stats, "ext_hist", min(len(sim.externals), 40))
            bump(stats, "knobs", "abort_signal_passed_never_triggered",
                 1 if getattr(sim, "idle_signal", False) else 0)
            bump(stats, "probes", "address_reuse_injected", al.reuses)
            bump(stats, "probes", "runs_with_address_reuse", 1 if al.reuses else 0)
            kinds = {e.kind for e in sim.externals}
            for k in ("ito", "rt", "anext", "item", "aclose"):
                bump(stats, "probes", "external_kind_" + k, 1 if k in kinds else 0)
            bump(stats, "probes", "cancelled_externals",
                 sum(1 for e in sim.externals if e.state == "cancelled"))
            bump(stats, "probes", "never_retrieved_reports", len(sim.loop.exc_reports))
            bump(stats, "probes", "slow_cancellations", sum(q.slow_cancels for q in reqs))
            bump(stats, "probes", "asyncgen_finalizer_hits", len(sim.loop.finalizer_hits))
        for v in vs:
            v.detail["sched_index"] = r
            v.detail["decisions"] = sim.decision_trace[:60]
            v.detail["alloc"] = al.policy
        violations += vs
        max_ext = max(max_ext, len(sim.externals))
        sd = sim.digest()
        digests.append(sd)
        digests.append([x[0] for x in results if x])
        order = tuple(l for _p, f in sim.decision_trace for l in f)
        orders.add(order)
        if len(sim.externals) >= 2 or any(rs.planner.nfault for rs in scn.requests):
            info["pairs"].append(pair_hash(digests[0], sd))
        if info["sample"] is None and r == n - 1:
            info["sample"] = {
                "document": scn.requests[0].text, "variables": scn.requests[0].variables,
                "plan": scn.requests[0].planner.render()[:12],
                "scheduler": sim.mode, "alloc": al.policy,
                "decision_trace": [[p, f] for p, f in sim.decision_trace[:12]],
                "response": results[0][0] if results[0] else None,
            }
        sim.close()
    # permutation sweep: for tiny scenarios walk *all* sequences of "which pending external
    # completes next" (one completion per idle point; exact odometer over a ScriptTape), bounded at
    # 240 runs, for scenarios with 2-7 externals; also judged for mutation seriality; a policy inside the
    # seeded search, reported separately, not a claim about anything larger
    if (unit is None and seed[2] % 3 == 0 and sched_tapes
            and 2 <= max_ext <= 7 and not violations):
        swept = 0
        picks = []
        while swept < 240:
            # mode=choice, fire_den=1 (no extra completions), immediate delivery, alloc=fresh
            st = ScriptTape([0, 4, 0, 0, 0], picks)
            sim, reqs, results, status, al = run_async(scn, st)
            swept += 1
            bad = status == "stepcap"
            for i, rs in enumerate(scn.requests):
                res = results[i]
                if res is None or res[1] is not None:
                    bad = True
                    continue
                rv = check_response(PROP, res[0], rs.result, who="async")
                rv += check_invocations(PROP, reqs[i], rs.result, res[0].get("data"), who="async")
                ms = mutation_seriality(sim, reqs[i], rs, res[0].get("data"))
                if ms is not None:
                    rv.append(ms)
                if rv:
                    for v in rv:
                        v.fingerprint["sweep"] = True
                        v.detail["sweep_picks"] = list(picks)
                    violations += rv
                    sched_tapes.append(st)
            sim.close()
            if bad or violations:
                break
            picks = next_script(st.trace)
            if picks is None:
                bump(stats, "probes", "permutation_sweeps_completed")
                break
        bump(stats, "counts", "async_execs", swept * len(scn.requests))
        bump(stats, "probes", "permutation_sweep_runs", swept)
    if len(orders) >= 3:
        bump(stats, "probes", "scenarios_with_3plus_completion_orders")
    info["unit"] = {"plan": ptape.used(), "scheds": [t.used() for t in sched_tapes],
                    "focus": focus}
    info["digest"] = digest_of(digests)
    info["render"] = scn.render()
    return violations, info


def evidence(stats, units, distinct, samples, tier, seed, wall, violations):
    c = stats.get("counts", {})
    evaluations = c.get("sync_execs", 0) + c.get("async_execs", 0)
    stats = dict(stats)
    stats["rejected"] = c.get("rejected", 0)
    return base_evidence(
        PROP, tier, seed, wall, violations, evaluations, distinct,
        "unit = one generated scenario (parametric schema, 1-3 concurrent requests, delivery/fault "
        "plan) executed by the model, by the real executor fully synchronously, and by the real "
        "executor on SimLoop under several seeded schedules and allocator policies; an evaluation is "
        "one real execution; a case is distinct by (scenario digest, event-log digest) and "
        "non-trivial when the run had >= 2 externals or >= 1 injected fault",
        samples, stats,
        extra={"units": units, "simulated_time_note": "logical ticks = event-loop iterations"},
        assumptions=[
            "reference model (sim/model.py) implements the spec's execution algorithm",
            "parser, build_schema and validate are trusted",
            "schedules only choose which externals complete at which loop iteration; the ready "
            "queue is never reordered",
        ],
    )
