"""Batch runner: seeded search over units, minimisation, replay files, evidence.

A *unit* is a dict of choice tapes; running it is a pure function of the tapes
and the code under /repo/src.  Exit codes: 0 held, 1 violation, 3 harness error.
"""
from __future__ import annotations

import argparse
import faulthandler
import hashlib
import importlib
import json
import multiprocessing
import os
import sys
import time
import traceback
from concurrent.futures import ProcessPoolExecutor, as_completed

ROOT = os.path.dirname(os.path.dirname(os.path.abspath(__file__)))
# The registered commands always check /repo. VERIF_REPO_SRC is a tooling override used only by
# tools/scratch_mutant.sh: it points a *copy* of /verif at a scratch copy of the library, so
# that seeded changes can be tried without touching /repo (and while a soak run is using it).
REPO_SRC = os.environ.get("VERIF_REPO_SRC", "/repo/src")

PROPS = {
    "C02": "checks.c02",
    "C03": "checks.c03",
    "C04": "checks.c04",
    "C05": "checks.c05",
    "C06": "checks.c06",
    "C07": "checks.c07",
}

TIERS = {
    # units per tier (each unit = one scenario under several schedules)
    "C02": {"quick": 2400, "thorough": 24000},
    "C03": {"quick": 11000, "thorough": 100000},
    "C04": {"quick": 6400, "thorough": 64000},
    "C05": {"quick": 14000, "thorough": 120000},
    "C06": {"quick": 9600, "thorough": 64000},
    "C07": {"quick": 6400, "thorough": 64000},
}
WALL_CAP = {"quick": 240, "thorough": 3000}


def setup_path():
    for p in (ROOT, REPO_SRC):
        if p not in sys.path:
            sys.path.insert(0, p)
    import graphql

    gf = os.path.realpath(graphql.__file__)
    if not gf.startswith(os.path.realpath(REPO_SRC) + os.sep):
        print(f"HARNESS-ERROR graphql imported from {gf}, expected {REPO_SRC}")
        sys.exit(3)
    import warnings

    # coroutines the library (or our teardown) drops un-awaited are counted by the checks, not printed
    warnings.filterwarnings("ignore", category=RuntimeWarning, message=".*was never awaited")
    from sim import alloc

    alloc.install()
    # abandoned coroutines of deliberately interrupted runs: not worth a traceback at exit
    sys.unraisablehook = lambda *_a: None


def load(prop):
    return importlib.import_module(PROPS[prop])


def unit_digest(unit):
    return hashlib.blake2b(json.dumps(unit, sort_keys=True).encode(), digest_size=8).hexdigest()


# --- worker ------------------------------------------------------------------------------


def _merge_counts(dst, src):
    for k, v in src.items():
        if isinstance(v, dict):
            _merge_counts(dst.setdefault(k, {}), v)
        elif isinstance(v, (int, float)):
            dst[k] = dst.get(k, 0) + v
        elif isinstance(v, list):
            dst.setdefault(k, [])
            if len(dst[k]) < 3:
                dst[k].extend(v[: 3 - len(dst[k])])


def worker_chunk(prop, verif_seed, indices, tier, deadline, want_digests=False):
    faulthandler.dump_traceback_later(max(30, deadline - time.time() + 60), exit=True)
    setup_path()
    mod = load(prop)
    stats = {}
    found = []
    seen_keys = set()
    pairs = set()
    digests = {}
    n_units = 0
    samples = []
    for i in indices:
        if time.time() > deadline:
            stats["skipped_for_wall_cap"] = stats.get("skipped_for_wall_cap", 0) + 1
            continue
        seed = (prop, verif_seed, i)
        try:
            violations, info = mod.run_unit(seed=seed, tier=tier, stats=stats)
        except Exception:  # noqa: BLE001 - a harness defect, reported apart from violations
            return {"harness_error": traceback.format_exc(), "seed": list(seed)}
        n_units += 1
        for h in info.get("pairs", ()):
            pairs.add(h)
        if want_digests:
            digests[i] = info.get("digest")
        if len(samples) < 2 and info.get("sample") is not None and (i % 7 == 3 or not samples):
            samples.append(info["sample"])
        for v in violations:
            k = v.key()
            if k in seen_keys:
                continue
            seen_keys.add(k)
            found.append({"violation": v.to_json(), "unit": info["unit"], "seed": list(seed)})
    faulthandler.cancel_dump_traceback_later()
    return {"stats": stats, "found": found, "pairs": list(pairs), "units": n_units,
            "digests": digests, "samples": samples}


# --- minimisation ---------------------------------------------------------------------------


def _tapes(unit):
    """Yield (accessor path) for every tape (list of ints) in the unit."""
    out = []
    for k, v in unit.items():
        if isinstance(v, list) and v and isinstance(v[0], list):
            for j in range(len(v)):
                out.append((k, j))
        elif isinstance(v, list):
            out.append((k, None))
    return out


def _get(unit, acc):
    k, j = acc
    return unit[k] if j is None else unit[k][j]


def _set(unit, acc, values):
    k, j = acc
    u = dict(unit)
    if j is None:
        u[k] = values
    else:
        u[k] = list(unit[k])
        u[k][j] = values
    return u


def shrink(mod, unit, target_cls, budget_runs=400, budget_s=30.0, tier="quick",
           fingerprint=None):
    """Greedy tape minimisation keeping the same (property, oracle) class and, when given,
    the same fingerprint (so that a violation cannot slide into a different - possibly
    already listed - way of failing the same oracle while it is being minimised)."""
    t0 = time.time()
    runs = [0]

    def fails(cand):
        if runs[0] >= budget_runs or time.time() - t0 > budget_s:
            return None
        runs[0] += 1
        try:
            vs, info = mod.run_unit(unit=cand, tier=tier)
        except Exception:  # noqa: BLE001
            return None
        for v in vs:
            if v.cls() == target_cls and (fingerprint is None or v.fingerprint == fingerprint):
                return v, info["unit"]
        return None

    best = unit
    r = fails(best)
    if r is None:
        return unit, None, runs[0]
    best_v, best = r
    # 1. drop whole secondary tapes (e.g. other schedules)
    for k, v in list(best.items()):
        if isinstance(v, list) and v and isinstance(v[0], list) and len(v) > 1:
            for keep in range(len(v)):
                cand = dict(best)
                cand[k] = [v[keep]]
                r = fails(cand)
                if r is not None:
                    best_v, best = r
                    break
    improved = True
    while improved:
        improved = False
        for acc in _tapes(best):
            vals = list(_get(best, acc))
            n = len(vals)
            size = max(1, n // 2)
            while size >= 1:
                i = 0
                while i < len(vals):
                    # delete span
                    cand_vals = vals[:i] + vals[i + size:]
                    r = fails(_set(best, acc, cand_vals))
                    if r is not None:
                        best_v, best = r
                        vals = list(_get(best, acc))
                        improved = True
                        continue
                    # zero span
                    if any(vals[i:i + size]):
                        cand_vals = vals[:i] + [0] * len(vals[i:i + size]) + vals[i + size:]
                        r = fails(_set(best, acc, cand_vals))
                        if r is not None:
                            best_v, best = r
                            vals = list(_get(best, acc))
                            improved = True
                    i += size
                    if runs[0] >= budget_runs or time.time() - t0 > budget_s:
                        break
                if runs[0] >= budget_runs or time.time() - t0 > budget_s:
                    break
                size //= 2
            # halve values
            for i in range(len(vals)):
                if vals[i] > 1:
                    cand_vals = list(vals)
                    cand_vals[i] = vals[i] // 2
                    r = fails(_set(best, acc, cand_vals))
                    if r is not None:
                        best_v, best = r
                        vals = list(_get(best, acc))
                        improved = True
            if runs[0] >= budget_runs or time.time() - t0 > budget_s:
                improved = False
                break
    return best, best_v, runs[0]


# --- known findings ----------------------------------------------------------------------------


def load_known():
    p = os.path.join(ROOT, "known_findings.json")
    if not os.path.exists(p):
        return []
    with open(p) as f:
        return json.load(f).get("findings", [])


def match_known(vj, known):
    for k in known:
        if k["property"] != vj["property"] or k["oracle"] != vj["oracle"]:
            continue
        ok = True
        for fk, fv in k.get("fingerprint", {}).items():
            if fv == "*":
                continue
            if vj["fingerprint"].get(fk) != fv:
                ok = False
                break
        if ok:
            return k
    return None


# --- replay ---------------------------------------------------------------------------------------


def render_unit(mod, unit, tier):
    try:
        vs, info = mod.run_unit(unit=unit, tier=tier)
        return info.get("render"), info.get("digest"), vs
    except Exception:  # noqa: BLE001
        return {"render_error": traceback.format_exc()}, None, []


def replay(prop, path):
    setup_path()
    mod = load(prop)
    with open(path) as f:
        rf = json.load(f)
    vs, info = mod.run_unit(unit=rf["unit"], tier=rf.get("tier", "quick"))
    want = (rf["property"], rf["oracle"])
    hit = [v for v in vs if v.cls() == want]
    same_digest = info.get("digest") == rf.get("event_digest")
    if hit:
        same_fp = any(v.fingerprint == rf["fingerprint"] for v in hit)
        print(f"replayed: oracle={rf['oracle']} fingerprint_match={same_fp} "
              f"event_digest_match={same_digest}")
        known = match_known(hit[0].to_json(), load_known())
        if known is not None:
            print(f"KNOWN-FINDING: property={prop} {known['description']}")
            return 0
        print(f"VIOLATION property={prop} replay={path}")
        return 1
    print(f"replayed: violation no longer occurs (event_digest_match={same_digest})")
    return 0


# --- main batch ---------------------------------------------------------------------------------------


def fresh_process_check(prop, unit, tier, want_cls):
    """Replay a unit in a fresh interpreter (PYTHONHASHSEED=0); returns digest or None."""
    import subprocess

    code = (
        "import sys, json; sys.path.insert(0, %r); from checks import runner; runner.setup_path();"
        "mod = runner.load(%r); unit = json.load(sys.stdin);"
        "vs, info = mod.run_unit(unit=unit, tier=%r);"
        "print(json.dumps({'digest': info.get('digest'), 'cls': [list(v.cls()) for v in vs],"
        " 'fps': [[list(v.cls()), v.fingerprint] for v in vs]}))"
    ) % (ROOT, prop, tier)
    env = dict(os.environ, PYTHONHASHSEED="0")
    try:
        p = subprocess.run([sys.executable, "-c", code], input=json.dumps(unit), text=True,
                           capture_output=True, timeout=120, env=env)
        line = p.stdout.strip().splitlines()[-1]
        return json.loads(line)
    except Exception:  # noqa: BLE001
        return None


def run_batch(prop, tier, n_units=None, workers=None, verif_seed=None):
    t0 = time.time()
    setup_path()
    mod = load(prop)
    verif_seed = int(os.environ.get("VERIF_SEED", "0")) if verif_seed is None else verif_seed
    n_units = n_units or TIERS[prop][tier]
    workers = workers or min(16, os.cpu_count() or 4)
    deadline = t0 + WALL_CAP[tier]
    chunk = max(5, min(50, n_units // (workers * 6) or 5))
    chunks = [list(range(i, min(i + chunk, n_units))) for i in range(0, n_units, chunk)]
    stats = {}
    found = {}
    pairs = set()
    units_done = 0
    samples = []
    harness_errors = []
    det_sample = {}
    ctx = multiprocessing.get_context("fork")
    with ProcessPoolExecutor(max_workers=workers, mp_context=ctx) as pool:
        futs = {}
        for ci, idx in enumerate(chunks):
            futs[pool.submit(worker_chunk, prop, verif_seed, idx, tier, deadline, ci < 2)] = idx
        for fut in as_completed(futs):
            try:
                res = fut.result()
            except Exception as e:  # noqa: BLE001  (dead worker, timeout kill)
                harness_errors.append(f"worker died: {e!r} on units {futs[fut][:3]}..")
                continue
            if "harness_error" in res:
                harness_errors.append(res["harness_error"] + f"\nseed={res['seed']}")
                continue
            _merge_counts(stats, res["stats"])
            units_done += res["units"]
            pairs.update(res["pairs"])
            det_sample.update(res["digests"])
            for s in res["samples"]:
                if len(samples) < 3:
                    samples.append(s)
            for f in res["found"]:
                vj = f["violation"]
                key = (vj["property"], vj["oracle"], json.dumps(vj["fingerprint"], sort_keys=True))
                if key not in found or f["seed"][2] < found[key]["seed"][2]:
                    found[key] = f
    # light determinism self-test: re-run a sample of units here (different process, heap, order)
    det_checked = 0
    det_mismatch = []
    for i in sorted(det_sample)[:12]:
        try:
            _vs, info = mod.run_unit(seed=(prop, verif_seed, i), tier=tier)
        except Exception:  # noqa: BLE001
            harness_errors.append(traceback.format_exc())
            break
        det_checked += 1
        if info.get("digest") != det_sample[i]:
            det_mismatch.append(i)
    if det_mismatch:
        harness_errors.append(f"non-deterministic replay of units {det_mismatch}")
    known = load_known()
    violations_out = []
    known_out = []
    os.makedirs(os.path.join(ROOT, "replays"), exist_ok=True)
    for key in sorted(found):
        f = found[key]
        vj = f["violation"]
        target = (vj["property"], vj["oracle"])
        if match_known(vj, known) is not None or len(violations_out) >= 6:
            small, small_v, nruns = f["unit"], None, 0  # listed already / enough reported
        else:
            small, small_v, nruns = shrink(mod, f["unit"], target, tier=tier,
                                           fingerprint=vj["fingerprint"])
        final_v = small_v.to_json() if small_v is not None else vj
        unit = small if small_v is not None else f["unit"]
        # the minimised tape must reproduce in a fresh interpreter
        fresh = fresh_process_check(prop, unit, tier, target)
        reproduced = bool(fresh and any(tuple(c) == target for c in fresh["cls"]))
        if not reproduced and small_v is not None:
            fresh2 = fresh_process_check(prop, f["unit"], tier, target)
            if fresh2 and any(tuple(c) == target for c in fresh2["cls"]):
                harness_errors.append(
                    f"minimised tape for {target} did not reproduce in a fresh process; "
                    "reporting the unminimised tape")
                unit, final_v = f["unit"], vj
                reproduced = True
        if not reproduced:
            harness_errors.append(f"violation {target} did not reproduce in a fresh process")
        render, digest, _ = render_unit(mod, unit, tier)
        kf = match_known(final_v, known) or match_known(vj, known)
        rf = {
            "property": final_v["property"], "oracle": final_v["oracle"],
            "fingerprint": final_v["fingerprint"], "verif_seed": verif_seed,
            "run_index": f["seed"][2], "tier": tier, "unit": unit, "event_digest": digest,
            "detail": final_v["detail"], "render": render,
            "minimised_from": {"tape_lens": {k: (len(v) if not (v and isinstance(v[0], list))
                                                  else [len(x) for x in v])
                                             for k, v in f["unit"].items()
                                             if isinstance(v, list)},
                               "shrink_runs": nruns},
            "reproduced_in_fresh_process": reproduced,
        }
        name = f"{prop}-{final_v['oracle']}-{unit_digest(unit)}.json"
        path = os.path.join(ROOT, "replays", name)
        with open(path, "w") as fh:
            json.dump(rf, fh, indent=1, default=str)
        if kf is not None:
            known_out.append((kf, path))
        else:
            violations_out.append((final_v, path))
    wall = time.time() - t0
    ev = mod.evidence(stats, units_done, len(pairs), samples, tier, verif_seed, wall,
                      len(violations_out))
    ev["coverage"]["determinism_selftest"] = {"units_rerun_in_other_process": det_checked,
                                              "digest_mismatches": len(det_mismatch)}
    ev["coverage"]["known_findings_matched"] = [k["description"] for k, _ in known_out]
    ev["coverage"]["harness_errors"] = len(harness_errors)
    ev["coverage"]["runs_per_hour"] = int(ev["coverage"]["evaluations"] / max(wall, 1e-6) * 3600)
    ev["coverage"]["units_per_hour"] = int(units_done / max(wall, 1e-6) * 3600)
    os.makedirs(os.path.join(ROOT, "evidence"), exist_ok=True)
    with open(os.path.join(ROOT, "evidence", f"{prop}.json"), "w") as fh:
        json.dump(ev, fh, indent=1, default=str)
    seen_known = set()
    for kf, path in known_out:
        if kf["description"] in seen_known:
            continue
        seen_known.add(kf["description"])
        print(f"KNOWN-FINDING: property={prop} {kf['description']} (replay={path})")
    # every listed finding of the property is named, also when this batch did not run into it
    for kf in known:
        if kf["property"] == prop and kf["description"] not in seen_known:
            print(f"KNOWN-FINDING: property={prop} {kf['description']} "
                  f"(listed; not encountered in this run of {units_done} units)")
    for vj, path in violations_out:
        print(f"VIOLATION property={prop} replay={path}")
        print(f"  oracle={vj['oracle']} fingerprint={json.dumps(vj['fingerprint'], sort_keys=True)}")
    print(f"{prop} {tier}: units={units_done} evaluations={ev['coverage']['evaluations']} "
          f"distinct={len(pairs)} violations={len(violations_out)} known={len(seen_known)} "
          f"wall={wall:.1f}s")
    if harness_errors:
        for h in harness_errors[:5]:
            print("HARNESS-ERROR", h)
        return 3 if not violations_out else 1
    if units_done < n_units * 0.5:
        print(f"HARNESS-ERROR only {units_done}/{n_units} units completed within the wall cap")
        return 3
    return 1 if violations_out else 0


def main(argv=None):
    ap = argparse.ArgumentParser()
    ap.add_argument("prop")
    ap.add_argument("--tier", default=os.environ.get("VERIF_TIER", "quick"),
                    choices=("quick", "thorough"))
    ap.add_argument("--replay")
    ap.add_argument("--units", type=int)
    ap.add_argument("--workers", type=int)
    args = ap.parse_args(argv)
    if args.prop not in PROPS:
        print(f"unknown property {args.prop}")
        return 2
    if args.replay:
        return replay(args.prop, args.replay)
    return run_batch(args.prop, args.tier, args.units, args.workers)


def cli(argv):
    code = main(argv)
    sys.stdout.flush()
    sys.stderr.flush()
    os._exit(code)  # skip interpreter teardown of deliberately abandoned coroutines


if __name__ == "__main__":
    cli(sys.argv[1:])
