"""C06 — stopping early never hangs or leaks (DESIGN §4-C06).

Every run injects at most one stop (close of the payload stream after k payloads, abort
with a reason at a seeded loop iteration) on top of the ordinary fault plan (resolver /
source failures, hanging externals when an abort is coming), then evaluates at true
quiescence: release of the caller, outcome shape, leftover tasks, hanging externals
cancelled, sources closed exactly once, work-finished hook exactly once and not early.
"""
from __future__ import annotations

from graphql.execution import AbortedGraphQLExecutionError, ExecutionHooks
from graphql.pyutils import AbortController, AbortError, is_awaitable

from sim.oracle import Violation
from sim.scenario import build_scenario
from sim.tape import Tape

from . import c06_sub, microworld_cancel
from .c03 import _strict_eligible
from .c04 import account
from .common import await_site, base_evidence, bump, digest_of, pair_hash
from .incremental import REACHED_AWAIT, run_incremental

PROP = "C06"
STOP_KINDS = ("aclose", "abort", "none", "abort")


class CustomReason(Exception):
    pass


class Stop:
    """One stop fault for one request, drawn from the schedule tape."""

    def __init__(self, sim, tape, i, rs, req, rr, kind, stopat=None):
        self.sim = sim
        self.kind = kind
        self.req = req
        self.rr = rr
        self.i = i
        self.controller = None
        self.reason_kind = None
        self.reason = None
        self.fired = False
        self.fired_poll = None
        self.close_after = None
        self.reaction = ("ignore", "await", "await_pull")[tape.draw(3, "reaction")]
        # freeze: what is still in flight at the stop instant never completes by itself any more,
        # so only the library's own cancellation can get rid of it
        self.freeze = bool(tape.draw(2, "freeze"))
        self.frozen = 0
        self.frozen_at_end = 0
        self.ended = False
        self.executor = None
        self.hook_calls = 0
        self.hook_snapshots = []
        self.aborted_result_settled = None
        self.aborted_result_error = None
        self.post_pull = None
        self.use_hooks = True
        # may this request legitimately leave work to be settled in the background? Only a
        # synchronously raised failure (or a failing list source) does that; a plan without
        # one must not produce background-settled resolver work at all
        self.bg_legit = _can_orphan(rs)
        self.idle_signal = False
        self.close_delay = False
        if kind == "aclose":
            self.close_after = tape.weighted((3, 3, 2, 1, 1), "close_after")
            self.close_delay = bool(tape.draw(2, "close_delay"))
        elif kind == "abort":
            self.controller = AbortController()
            self.reason_kind = ("default", "exception", "value")[tape.draw(3, "reason")]
            if self.reason_kind == "exception":
                self.reason = CustomReason(f"stop-{i}")
            elif self.reason_kind == "value":
                self.reason = {"why": f"stop-{i}"}
            when = tape.weighted((2, 2, 2, 2, 1, 1, 1, 1), "abort_when")
            not_before = (0, 1, 2, 3, 5, 8, 13, 21)[when] + tape.draw(3, "abort_jit")
        if kind != "abort" and tape.draw(3, "idle_signal") == 0:
            # an abort signal that is passed but never triggered: every awaitable is raced
            # against it all the same, and the waiters must not outlive the execution
            self.controller = AbortController()
            self.idle_signal = True
        # stop-instant sweep: the draws above are those of the base run (so the schedule is the
        # same up to the stop); only the stop itself is replaced
        self.close_fut = None
        if stopat:
            if stopat[0] == 4 or len(stopat) < 2 or stopat[1] <= 0:
                if self.kind == "abort":
                    self.idle_signal = True
                self.kind = "none"
            elif stopat[0] == 2:
                if self.kind == "abort":
                    self.idle_signal = True
                self.kind = "aclose"
                self.close_after = 999
                self.close_delay = False
                self.close_fut = sim.loop.create_future()
                sim.action(f"closegate:{i}",
                           lambda f=self.close_fut: f.done() or f.set_result(None),
                           not_before=stopat[1], owner=i)
            elif stopat[0] == 3:
                self.kind = "abort"
                self.idle_signal = False
                if self.controller is None:
                    self.controller = AbortController()
                if self.reason_kind is None:
                    self.reason_kind = "default"
                not_before = stopat[1]
        if self.kind == "abort":
            sim.action(f"abort:{i}", self._abort, not_before=not_before, owner=i)

    def on_stop(self):
        if not self.freeze:
            return
        for e in self.sim.externals:
            if e.owner == self.i and e.kind in ("res", "anext", "rt") and e.is_pending():
                # work the executor deliberately settles in the background is never cancelled
                # (by design); freezing it would only restate that
                if self.bg_legit and _awaited_by_background(e, self, self.rr) is True:
                    continue
                e.hanging = True
                self.frozen += 1

    def on_end(self):
        """The response (stream) ended normally: whatever is still in flight now is abandoned
        work, which only the library's own cancellation can get rid of."""
        if self.kind == "abort" and not self.fired:
            return  # the abort is still to come; it will freeze
        self.ended = True
        frozen_before = self.frozen
        freeze = self.freeze
        self.freeze = True
        try:
            self.on_stop()
        finally:
            self.freeze = freeze
        self.frozen_at_end = self.frozen - frozen_before

    def _abort(self):
        self.fired = True
        self.fired_poll = self.sim.poll
        self.on_stop()
        if self.reason_kind == "default":
            self.controller.abort()
        else:
            self.controller.abort(self.reason)

    def _hook(self, info):
        self.hook_calls += 1
        req = self.req
        pending = [e.label for e in self.sim.externals
                   if e.owner == self.i and e.kind != "gate" and e.is_pending()]
        open_sources = [
            (s.kind, "/".join(map(str, s.path))) for s in req.sources
            if s.started and s.kind != "aiter_noclose"
            and not (s.exhausted or s.self_failed or s.finalized or s.aclose_done)
        ]
        try:
            self.executor = info.executor
            tracked = len(info.executor.background_futures)
        except Exception:  # noqa: BLE001
            tracked = -1
        self.hook_snapshots.append({
            "tracked_background_pending": tracked,
            "poll": self.sim.poll, "pending_externals": pending[:6], "active": req.active,
            "open_sources": open_sources[:4],
            "in_flight": sum(s.in_anext + s.in_aclose for s in req.sources),
        })

    def exec_kwargs(self):
        kw = {}
        if self.controller is not None:
            kw["abort_signal"] = self.controller.signal
        if self.use_hooks:
            kw["hooks"] = ExecutionHooks(async_work_finished=self._hook)
        return kw

    def close_now(self, k):
        if self.kind == "aclose" and (k == self.close_after or (
                self.close_fut is not None and self.close_fut.done())):
            self.close_after = k
            self.on_stop()
            return True
        return False

    async def on_execute_error(self, e, rr):
        """The consumer's reaction to an error from the awaited execution."""
        if not isinstance(e, AbortedGraphQLExecutionError) or self.reaction == "ignore":
            return
        ar = e.aborted_result
        try:
            if is_awaitable(ar):
                rr.waiting = "aborted_result"
                ar = await ar
                rr.waiting = None
            self.aborted_result_settled = True
        except Exception as exc:  # noqa: BLE001
            rr.waiting = None
            self.aborted_result_settled = True
            self.aborted_result_error = exc
            return
        if self.reaction == "await_pull" and hasattr(ar, "subsequent_results"):
            rr.waiting = "aborted_pull"
            try:
                await ar.subsequent_results.__anext__()
                self.post_pull = "payload"
            except StopAsyncIteration:
                self.post_pull = "end"
            except Exception as exc:  # noqa: BLE001
                self.post_pull = type(exc).__name__
            rr.waiting = None


def acceptable_abort_error(stop, err):
    """Oracle 2: the documented shapes of an abort reaching the caller."""
    if isinstance(err, AbortedGraphQLExecutionError):
        if stop.reason_kind == "default":
            return isinstance(err.reason, AbortError)
        return err.reason is stop.reason
    if stop.reason_kind == "default":
        return isinstance(err, AbortError)
    if stop.reason_kind == "exception":
        return err is stop.reason
    return isinstance(err, TypeError) and str(err).startswith("Unexpected error value")


def evaluate(sim, scn, reqs, results, stops, status, knobs, stats=None):
    vs = []
    if status == "stepcap":
        vs.append(Violation(PROP, "livelock", {}, {"polls": sim.poll}))
        return vs
    left = sim.unfinished_tasks()
    consumer_left = [t for t in left if t.get_name().startswith("consumer") or t.get_name() == "main"]
    for i, rs in enumerate(scn.requests):
        rr, stop, req = results[i], stops[i], reqs[i]
        kind = stop.kind if stop else "none"
        hanging_planned = any(fp.fault == "hang" for fp in rs.planner.fields.values())
        frozen = stop is not None and stop.frozen > 0
        stopped = stop is not None and (stop.fired or rr.stopped or stop.ended)
        # 1. release
        if rr.waiting is not None:
            blocked_on_hanging = hanging_planned and not stopped
            if not blocked_on_hanging:
                vs.append(Violation(PROP, "hang", {
                    "blocked": rr.waiting, "stop": kind, "stopped": stopped,
                    "early": knobs.early},
                    {"request": i, "pending_hanging": [e.label for e in sim.pending_hanging()][:5],
                     "payloads": rr.payloads[-2:]}))
                continue
        # 2. outcome
        err = rr.error if rr.error is not None else rr.stop_error
        if err is not None:
            ok = (stop is not None and stop.kind == "abort" and stop.fired
                  and acceptable_abort_error(stop, err))
            if not ok:
                vs.append(Violation(PROP, "bad_outcome", {
                    "type": type(err).__name__, "stop": kind, "phase": rr.kind or "?"},
                    {"request": i, "error": repr(err)}))
        if stop is not None and stop.aborted_result_error is not None:
            e2 = stop.aborted_result_error
            if not acceptable_abort_error(stop, e2):
                vs.append(Violation(PROP, "bad_outcome", {
                    "type": type(e2).__name__, "stop": kind, "phase": "aborted_result"},
                    {"request": i, "error": repr(e2)}))
        # 3. hanging externals must have been cancelled by the library once stopped
        if stopped or not hanging_planned:
            still = [e for e in sim.externals
                     if e.owner == i and e.hanging and e.is_pending()
                     # what an unfinished task still waits for is reported with that task (3b)
                     and not _awaited_by_task(e, left)]
            if still and rr.waiting is None:
                vs.append(Violation(PROP, "hanging_external_not_cancelled", {
                    "stop": kind, "kind": still[0].kind,
                    "signal": stop is not None and stop.controller is not None,
                    "abort_phase": _phase(stop, rr), "frozen_at_stop": frozen,
                    "frozen_at_end_of_response": bool(stop is not None and stop.frozen_at_end),
                    # does any task still wait for it, or was the awaitable abandoned un-awaited?
                    "still_awaited": any(bool(getattr(e.fut, "_callbacks", None)) for e in still),
                    # did the executor get as far as awaiting it (through with_abort_signal)?
                    "reached_await": any(id(e.fut) in REACHED_AWAIT for e in still),
                    "awaited_by_background_work": _awaited_by_background(still[0], stop, rr),
                    "background_legit": stop.bg_legit,
                    "unconsumed_aborted_result": _unconsumed([stop], [rr]),
                    "reaction": stop.reaction if kind == "abort" else "-"},
                    {"request": i, "externals": [e.label for e in still][:5]}))
        # 4. sources closed exactly once
        announced_paths = [list(pe.get("path")) for p in rr.payloads
                           for pe in p.get("pending") or ()]
        if rr.waiting is None:
            for s in req.sources:
                if not s.started or s.kind == "aiter_noclose":
                    continue
                if s.kind == "agen":
                    if not s.finalized:
                        vs.append(Violation(PROP, "source_not_closed", {
                            "source": "agen", "last_anext": s.last_anext, "stop": kind,
                            "cause": _cause(rs, stop, rr), "abort_phase": _phase(stop, rr),
                            "stream_announced": list(s.path) in announced_paths,
                            "result_kind": str(rr.kind),
                            "unconsumed_aborted_result": _unconsumed([stop], [rr]),
                            "reaction": stop.reaction if kind == "abort" else "-"},
                            {"request": i, "path": list(s.path), "pulls": s.pulls}))
                        break
                    continue
                done_by_itself = s.exhausted or s.self_failed
                if s.aclose_calls > 1:
                    vs.append(Violation(PROP, "source_closed_twice", {
                        "source": s.kind, "stop": kind},
                        {"request": i, "path": list(s.path), "calls": s.aclose_calls}))
                    break
                if not done_by_itself and s.aclose_calls == 0:
                    vs.append(Violation(PROP, "source_not_closed", {
                        "source": s.kind, "last_anext": s.last_anext, "stop": kind,
                        "cause": _cause(rs, stop, rr), "abort_phase": _phase(stop, rr),
                        "stream_announced": list(s.path) in announced_paths,
                        "result_kind": str(rr.kind),
                        "unconsumed_aborted_result": _unconsumed([stop], [rr]),
                        "reaction": stop.reaction if kind == "abort" else "-"},
                        {"request": i, "path": list(s.path), "pulls": s.pulls}))
                    break
        # 5. hook
        if stop is not None and stop.use_hooks and rr.waiting is None:
            if stop.hook_calls != 1:
                vs.append(Violation(PROP, "hook_count", {
                    "count": min(stop.hook_calls, 2), "stop": kind,
                    "result": rr.kind or "?", "reaction": stop.reaction if kind == "abort" else "-",
                    "close_before_first_pull": kind == "aclose" and stop.close_after == 0
                    and rr.stopped},
                    {"request": i, "calls": stop.hook_calls}))
            for snap in stop.hook_snapshots[:1]:
                early = (snap["pending_externals"] or snap["active"] or snap["open_sources"]
                         or snap["in_flight"])
                if early:
                    what = ("pending_external" if snap["pending_externals"] else
                            "running_coroutine" if snap["active"] or snap["in_flight"]
                            else "open_source")
                    vs.append(Violation(PROP, "hook_early", {
                        "world": "W1", "unsettled": what, "stop": kind,
                        "stopped": bool(stop.fired or rr.stopped),
                        "tracked_background_pending": snap["tracked_background_pending"] != 0},
                                        {"request": i, "snapshot": snap}))
    # 3b. leftover tasks at quiescence
    lib_left = [t for t in left if t not in consumer_left]
    if lib_left:
        t = lib_left[0]
        coro = t.get_coro()
        qn = getattr(coro, "__qualname__", repr(coro))
        kinds = sorted({(s.kind if s else "none") for s in stops})
        phases = sorted({_phase(s, r_) for s, r_ in zip(stops, results)} - {"-"})
        reactions = sorted({s.reaction for s, r_ in zip(stops, results)
                            if _phase(s, r_) == "initial"})
        vs.append(Violation(PROP, "orphan_task", {
            "coroutine": qn, "site": await_site(t), "stops": ",".join(kinds),
            "stream_announced": _stream_announced(t, results),
            "created_after_cleanup_started": _late_stream(t, results),
            "abort_phase": ",".join(phases) or "-", "reaction": ",".join(reactions) or "-",
            "unconsumed_aborted_result": _unconsumed(stops, results),
            "result_kinds": ",".join(sorted({str(r_.kind) for r_ in results})),
            "has_single_result": any(r_.kind == "single" for r_ in results),
            "signal": any(s is not None and s.controller is not None for s in stops)},
            {"tasks": [getattr(x.get_coro(), "__qualname__", "?") for x in lib_left][:6]}))
    agen_hits = [n for n in sim.loop.finalizer_hits if "agen" in n]
    if agen_hits:
        vs.append(Violation(PROP, "source_left_to_gc", {"source": "agen"}, {"hits": agen_hits[:3]}))
    return vs


def _waiters_of(fut):
    """Futures/tasks that wait for `fut` (through task wake-ups and gather callbacks)."""
    out = []
    for cb in getattr(fut, "_callbacks", None) or ():
        fn = cb[0] if isinstance(cb, tuple) else cb
        owner = getattr(fn, "__self__", None)
        if owner is not None and hasattr(owner, "add_done_callback"):
            out.append(owner)
        for cell in getattr(fn, "__closure__", None) or ():
            try:
                v = cell.cell_contents
            except ValueError:
                continue
            if hasattr(v, "add_done_callback"):
                out.append(v)
    return out


def _awaited_by_task(ext, tasks):
    """Is the external (transitively) awaited by one of the given unfinished tasks?"""
    if not tasks:
        return False
    try:
        ids = set(map(id, tasks))
        seen, todo = set(), [ext.fut]
        for _ in range(200):
            if not todo:
                break
            f = todo.pop()
            if id(f) in seen:
                continue
            seen.add(id(f))
            if id(f) in ids:
                return True
            todo.extend(_waiters_of(f))
    except Exception:  # noqa: BLE001
        pass
    return False


def _can_orphan(rs):
    """Can the request's plan make the executor settle resolver work in the background?"""
    pl = rs.planner
    keys = {path[0] for path in pl.fields} | {path[0] for path in pl.items}
    keys |= {path[0] for path in getattr(rs.result, "no_invoke", ())}
    if not all(_strict_eligible(rs, k) for k in keys):
        return True
    # a stream over a synchronous iterable that is aborted drains the iterator and settles the
    # awaitable items it still held in the background (on_abort of the stream item queue)
    for path, ip in pl.items.items():
        if ip.delivery != "sync":
            lp = pl.lists.get(path[:-1])
            if lp is None or lp.kind in ("list", "tuple", "gen"):
                return True
    return False


def _awaited_by_background(ext, stop, rr=None):
    """Is the external (transitively) awaited by work the executor settles in the background?
    (introspective probe for the fingerprint only)"""
    ex = getattr(rr, "executor", None) or getattr(stop, "executor", None)
    if ex is None:
        return "?"
    try:
        background = set(map(id, ex.background_futures))
        seen, todo = set(), [ext.fut]
        for _ in range(200):
            if not todo:
                break
            f = todo.pop()
            if id(f) in seen:
                continue
            seen.add(id(f))
            if id(f) in background:
                return True
            todo.extend(_waiters_of(f))
        return False
    except Exception:  # noqa: BLE001
        return "?"


def _late_stream(task, results):
    """For a leaked stream producer: was its queue created only after the final cleanup of its
    request could start (True), before it (False), or unknown ("?")?  (probe for the fingerprint)"""
    try:
        q = task.get_coro().cr_frame.f_locals.get("self")
        created = getattr(q, "_verif_created_poll", None)
        owner = None
        for cell in getattr(q._produce, "__closure__", None) or ():
            try:
                v = cell.cell_contents
            except ValueError:
                continue
            ctx = getattr(v, "context_value", None)
            if ctx is not None and hasattr(ctx, "idx"):
                owner = ctx.idx
        if created is None or owner is None or owner >= len(results):
            return "?"
        cp = results[owner].cleanup_poll
        if cp is None:
            return "?"
        return created >= cp
    except Exception:  # noqa: BLE001
        return "?"


def _stream_announced(task, results):
    """For a leaked stream producer: was its stream ever announced to the consumer?
    (introspective probe: only refines the fingerprint, never the verdict)"""
    import gc

    try:
        q = task.get_coro().cr_frame.f_locals.get("self")
        for ref in gc.get_referrers(q):
            if type(ref).__name__ == "ItemStream":
                path = ref.path.as_list()
                for rr in results:
                    for p in rr.payloads:
                        for pe in p.get("pending") or ():
                            if list(pe.get("path")) == path:
                                return True
                return False
    except Exception:  # noqa: BLE001
        pass
    return "?"


def _unconsumed(stops, results):
    """An abort landed in the initial phase and the consumer never pulled aborted_result's
    stream: the library documents that the cleanup does not run in this case."""
    return any(_phase(s, r) == "initial" and s.reaction in ("ignore", "await")
               for s, r in zip(stops, results) if s is not None)


def _phase(stop, rr):
    """Where an abort landed: during the initial phase (execute raised) or later."""
    if stop is None or stop.kind != "abort" or not stop.fired:
        return "-"
    if rr.kind == "raised":
        return "initial"
    if rr.kind == "incremental":
        return "incremental"
    return "after"


def _cause(rs, stop, rr):
    if stop is not None and (stop.fired or rr.stopped):
        return stop.kind
    if rs.planner.nfault:
        return "fault"
    return "none"


FOCUS_CYCLE = ("abortstream", "streamfail", "background", None, "earlyclose", "nullroot")


def run_unit(seed=None, unit=None, tier="quick", stats=None):
    if unit is not None:
        world = unit.get("world", "W1")
    else:
        world = "SUB" if seed[2] % 8 == 7 else "W2" if seed[2] % 4 == 3 else "W1"
    if world == "W2":
        return microworld_cancel.run_unit(seed=seed, unit=unit, tier=tier, stats=stats, prop=PROP)
    if world == "SUB":
        return c06_sub.run_unit(seed=seed, unit=unit, tier=tier, stats=stats, prop=PROP)
    n_sched = 3 if tier == "quick" else 6
    if unit is not None:
        ptape = Tape(values=unit["plan"])
        sched_values = unit["scheds"]
    else:
        ptape = Tape((seed, "plan"))
        sched_values = None
    big = tier == "thorough"
    stop_kind = STOP_KINDS[ptape.draw(len(STOP_KINDS), "stop_kind")]
    incremental = ptape.draw(4, "incr") != 0
    focus = unit.get("focus") if unit is not None else (
        (FOCUS_CYCLE[seed[2] % len(FOCUS_CYCLE)]))
    if unit is None and focus == "background" and (seed[2] // len(FOCUS_CYCLE)) % 2:
        # the same plan family, but the consumer closes the stream while background-settled work
        # is still arriving (early execution on)
        focus = "bgclose"
    if focus == "nullroot":
        stop_kind = "none"
        incremental = True
    if focus == "streamfail":
        stop_kind = "none"
        incremental = True
    if focus == "abortstream":
        stop_kind = "abort"
        incremental = True
    if focus == "background":
        stop_kind = "none"
        incremental = True
    if focus == "bgclose":
        stop_kind = "aclose"
        incremental = True
    if focus == "earlyclose":
        # early execution, consumer closes before / right after the first payload, and whatever
        # is in flight at that instant never completes by itself
        stop_kind = "aclose"
        incremental = True
    scn = build_scenario(ptape, incremental=incremental, max_requests=2, want_r0=True,
                         allow_hang=stop_kind == "abort",
                         focus="background" if focus == "bgclose" else focus,
                         max_depth=5 if big else 4, budget=36 if big else 24)
    info = {"pairs": [], "digest": None, "sample": None, "render": None}
    if not scn.requests:
        bump(stats, "counts", "rejected")
        info["unit"] = {"world": "W1", "plan": ptape.used(), "scheds": [], "focus": focus}
        info["digest"] = "rejected"
        return [], info
    for rs in scn.requests:
        for k, n in rs.planner.fault_kinds.items():
            bump(stats, "faults", k, n)
    violations = []
    digests = [scn.digest(), stop_kind]
    sched_tapes = []
    n = n_sched if sched_values is None else len(sched_values)
    # stop-instant sweep (DESIGN §4-C06): stopat = [2, t] closes the payload stream at the
    # consumer's first opportunity at or after loop iteration t, [3, t] aborts at iteration t,
    # [4] disables the stop (base run); given by a replayed unit, or walked below for selected
    # units over every iteration of schedule 0
    stopat = list(unit.get("stopat") or ()) if unit is not None else []
    sweep_queue = []
    sweep_hit = None
    sweep_base = None
    r = -1
    while True:
        r += 1
        if r >= n:
            if not sweep_queue:
                break
            stopat = sweep_queue.pop(0)
            st = Tape(values=sweep_base)
            bump(stats, "probes", "stop_instant_sweep_runs")
        else:
            st = (Tape(values=sched_values[r]) if sched_values is not None
                  else Tape((seed, "sched", r)))
            sched_tapes.append(st)

        def factory(sim, tape, i, rs, req, rr, stop_kind=stop_kind, focus=focus, stopat=stopat):
            stop = Stop(sim, tape, i, rs, req, rr, stop_kind, stopat=stopat)
            if focus == "earlyclose":
                if not stopat:
                    stop.close_after = min(stop.close_after, 1)
                stop.freeze = True
            return stop


        r_eff = r if r < n else 0  # sweep runs repeat schedule 0 (and replay as schedule 0)
        sim, reqs, results, status, knobs, al, stops = run_incremental(
            scn, st, stop_factory=factory, lenient=True,
            force_early=(True if focus in ("earlyclose", "streamfail", "bgclose")
                         else r_eff != 2 if focus == "nullroot"
                         else True if focus == "background" and r_eff == 1
                         else False if focus == "abortstream" and r_eff != 1 else None),
            force_capacity=(1, 2)[r_eff % 2] if focus == "abortstream" else None)
        bump(stats, "counts", "execs", len(reqs))
        # Work the executor settles in the background is by design left running (and the hook
        # waits for it). Stalled externals that only such work still waits for are released
        # now, so that this by-design behaviour is not reported as a leak.
        for _round in range(6):
            released = 0
            for e in sim.externals:
                if e.hanging and e.is_pending() and e.owner < len(stops):
                    if (stops[e.owner].bg_legit and _awaited_by_background(
                            e, stops[e.owner], results[e.owner]) is True):
                        e.hanging = False
                        released += 1
            if not released or status != "idle":
                break
            bump(stats, "probes", "stalled_externals_released_for_background_work", released)
            status = sim.resume()
        account(stats, sim, knobs, al, results)
        vs = evaluate(sim, scn, reqs, results, stops, status, knobs, stats)
        if stats is not None:
            bump(stats, "stops", stops[0].kind if stops and stops[0] else stop_kind)
            for stp, rr in zip(stops, results):
                if stp.idle_signal:
                    bump(stats, "knobs", "abort_signal_passed_never_triggered")
                if stp.kind == "abort":
                    bump(stats, "faults", "stop:abort_fired" if stp.fired else "stop:abort_not_needed")
                    bump(stats, "faults", "stop:abort_reason_" + stp.reason_kind)
                    if isinstance(rr.error, AbortedGraphQLExecutionError):
                        bump(stats, "probes", "aborted_execution_error_" + stp.reaction)
                    if stp.fired and rr.kind == "incremental":
                        bump(stats, "probes", "abort_after_initial_result")
                    if stp.fired and rr.kind == "raised":
                        bump(stats, "probes", "abort_during_initial_phase")
                    if stp.fired and stp.fired_poll is not None and stp.fired_poll <= 1:
                        bump(stats, "probes", "abort_before_execution_started")
                elif stp.kind == "aclose" and rr.stopped:
                    bump(stats, "faults", "stop:aclose")
                    bump(stats, "probes", f"aclose_after_{stp.close_after}_payloads")
                bump(stats, "probes", "hook_fired", stp.hook_calls)
                bump(stats, "probes", "externals_frozen_at_stop", stp.frozen)
            bump(stats, "probes", "hanging_externals_cancelled",
                 sum(1 for e in sim.externals if e.hanging and e.state == "cancelled"))
            bump(stats, "probes", "slow_aclose_externals",
                 sum(1 for e in sim.externals if e.kind == "aclose"))
            bump(stats, "probes", "slow_cancellations", sum(q.slow_cancels for q in reqs))
            bump(stats, "probes", "sources_started",
                 sum(1 for q in reqs for s in q.sources if s.started))
            bump(stats, "probes", "sources_closed_early",
                 sum(1 for q in reqs for s in q.sources if s.aclose_calls))
        for v in vs:
            v.detail["sched_index"] = r
            v.detail["knobs"] = knobs.render()
            v.detail["stop"] = [
                {"kind": s.kind, "close_after": s.close_after, "reason": s.reason_kind,
                 "fired_poll": s.fired_poll, "reaction": s.reaction} for s in stops]
            v.detail["decisions"] = sim.decision_trace[:60]
        violations += vs
        sd = sim.digest()
        digests.append(sd)
        digests.append([rr.payloads for rr in results])
        digests.append([s.hook_calls for s in stops])
        info["pairs"].append(pair_hash(digests[0], sd))
        if info["sample"] is None:
            info["sample"] = {
                "document": scn.requests[0].text, "plan": scn.requests[0].planner.render()[:10],
                "knobs": knobs.render(), "scheduler": sim.mode,
                "stop": {"kind": stops[0].kind, "close_after": stops[0].close_after,
                         "reason": stops[0].reason_kind, "fired_poll": stops[0].fired_poll,
                         "reaction": stops[0].reaction},
                "outcome": {"kind": results[0].kind, "error": repr(results[0].error),
                            "payloads": len(results[0].payloads),
                            "hook_calls": stops[0].hook_calls},
                "decision_trace": [[p, f] for p, f in sim.decision_trace[:10]],
            }
        polls = sim.poll
        sim.close()
        if r >= n:
            if vs:
                # found by the sweep: the replay is the base schedule plus the stop instant
                for v in vs:
                    v.fingerprint["sweep"] = True
                    v.detail["stopat"] = list(stopat)
                sched_tapes = [st]
                sweep_hit = list(stopat)
                break
            if stopat[0] == 4 or stopat[1] >= 10 ** 6:
                # the base run (no stop): every iteration of it is a stop instant
                tmax = min(polls, 24 if tier == "quick" else 64)
                kinds_ = (3,) if stop_kind == "abort" else (2, 3)
                sweep_queue = [[k_, t] for t in range(1, tmax + 1) for k_ in kinds_]
            elif not sweep_queue:
                bump(stats, "probes", "stop_instant_sweeps_completed")
        elif (r == n - 1 and unit is None and not violations and sched_tapes
              and seed is not None and seed[2] % 16 == 2):
            sweep_base = sched_tapes[0].used()
            # (hanging externals were planted when an abort is planned: the base run of such a
            # unit aborts once nothing else can happen)
            sweep_queue = [[3, 10 ** 6]] if stop_kind == "abort" else [[4]]
    info["unit"] = {"world": "W1", "plan": ptape.used(), "scheds": [t.used() for t in sched_tapes],
                    "focus": focus}
    if sweep_hit or (unit is not None and unit.get("stopat")):
        info["unit"]["stopat"] = sweep_hit or list(unit["stopat"])
    info["digest"] = digest_of(digests)
    info["render"] = dict(scn.render(), stop_kind=stop_kind)
    return violations, info


def evidence(stats, units, distinct, samples, tier, seed, wall, violations):
    c = stats.get("counts", {})
    stats = dict(stats)
    stats["rejected"] = c.get("rejected", 0)
    return base_evidence(
        PROP, tier, seed, wall, violations,
        c.get("execs", 0) + c.get("w2_runs", 0) + c.get("sub_runs", 0), distinct,
        "three of four units: a generated request (70% with @defer/@stream) executed through "
        "experimental_execute_incrementally on SimLoop with ExecutionHooks and one stop fault per "
        "request: close of the payload stream after k in 0..4 payloads, or AbortController.abort "
        "(default / exception / non-exception reason) at a seeded loop iteration with the consumer's "
        "reaction (ignore / await aborted_result / await and pull) drawn too; resolver, item, type "
        "and source failures come from the ordinary fault plan, hanging externals are planted when an "
        "abort is coming; x early execution x queue capacity x pull policy x schedules. Evaluated at "
        "quiescence: caller released, outcome shape, no unfinished task, hanging externals cancelled, "
        "sources closed exactly once, hook exactly once and with nothing of the request unsettled. "
        "Every eighth unit cancels a W2 work graph (consumer closes after k payloads) and every "
        "eighth closes a subscription response stream after k responses (four source shapes). "
        "Distinct = (scenario digest, event-log digest).",
        samples, stats,
        extra={"units": units, "stop_kinds": stats.get("stops", {}),
               "w2_runs": c.get("w2_runs", 0), "subscription_runs": c.get("sub_runs", 0),
               "knobs": stats.get("knobs", {})},
        assumptions=[
            "hooks are only asserted for query/mutation requests (subscribe() takes no hooks)",
            "hanging faults are placed only on awaitables the library itself awaits",
            "a source that ran to exhaustion or failed by itself need not be aclose()d",
        ],
    )
