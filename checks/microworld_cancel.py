"""W2 under C06: cancel a synthetic work graph at a seeded instant (consumer closes the
payload stream after k payloads) and check release, leftovers and the hook at quiescence."""
from __future__ import annotations

import asyncio

from graphql.execution.incremental import IncrementalPublisher

from sim.incremental import Monitor
from sim.loop import Sim
from sim.oracle import Violation
from sim.tape import Tape, mix

from .common import await_site, bump, digest_of, pair_hash
from .microworld import GraphSpec, World2, initial_data


class CancelCtx:
    """Mimics the root executor: aborts its own (initial) work and the tracked early futures."""

    abort_signal = None

    def __init__(self, world):
        self.world = world
        self.hook_calls = 0
        self.hook_pending = []
        self.closing_at_hook = []
        self.initial_computations = []
        self.initial_queues = []

    def abort_error(self):
        return RuntimeError("aborted")

    async def cancel_incremental_work(self, reason=None):
        self.world.closed = True
        aw = []
        for c in self.initial_computations:
            r = c.abort(reason)
            if r is not None and hasattr(r, "__await__"):
                aw.append(r)
        for q in self.initial_queues:
            r = q.abort(reason)
            if r is not None and hasattr(r, "__await__"):
                aw.append(r)
        if aw:
            await asyncio.gather(*aw, return_exceptions=True)
        # like IncrementalExecutor.cancel_incremental_work: every stream item queue ever created
        aw = []
        for q in self.world.queues:
            r = q.abort(reason)
            if r is not None and hasattr(r, "__await__"):
                aw.append(r)
        if aw:
            await asyncio.gather(*aw, return_exceptions=True)
        if self.world.early:
            # pending_incremental_futures of the real executor: every early-primed computation
            futs = [c.pending_future for c in self.world.computations]
            futs = [f for f in futs if f is not None and not f.done()]
            for f in futs:
                f.cancel()
            if futs:
                await asyncio.gather(*futs, return_exceptions=True)

    def run_async_work_finished_hook(self):
        self.hook_calls += 1
        sim = self.world.sim
        self.hook_pending = [e.label for e in sim.externals
                             if e.kind != "gate" and e.is_pending()][:5]
        # a source still being closed when the publisher declares the work finished - unless a
        # shielded clean-up is in flight, which the real executor's hook would wait for
        if not any(not f.done() for f in self.world.background):
            self.closing_at_hook = [e.label for e in sim.externals
                                    if e.kind == "aclose" and e.is_pending()][:4]


def _provenance(spec, world, leaked):
    """How a leaked stream came into being (W2 knows its own graph)."""
    def in_work(ws):
        return ws is not None and leaked in ws.streams

    if in_work(spec.initial):
        return "initial"
    for t in spec.all_tasks:
        if in_work(t.nested):
            return "child_of_task"
    for s in spec.all_streams:
        for i, ws in s.item_work.items():
            if in_work(ws):
                if (s.sid, i) in world.pushed:
                    return "in_item_handed_to_queue"
                return "in_item_held_by_producer"
    return "?"


def run_unit(seed=None, unit=None, tier="quick", stats=None, prop="C06"):
    n_sched = 4 if tier == "quick" else 8
    if unit is not None:
        ptape = Tape(values=unit["plan"])
        sched_values = unit["scheds"]
    else:
        ptape = Tape((seed, "w2plan"))
        sched_values = None
    info = {"pairs": [], "digest": None, "sample": None, "render": None}
    violations = []
    digests = []
    sched_tapes = []
    n = n_sched if sched_values is None else len(sched_values)
    rendered = None
    # stop-instant sweep (DESIGN §4-C06): stopat = [2, t] closes the payload stream at the
    # consumer's first opportunity at or after loop iteration t ([2, 0]: never; the base run);
    # given by a replayed unit, or walked below for selected units over every iteration of
    # schedule 0
    stopat = list(unit.get("stopat") or ()) if unit is not None else []
    sweep_queue = []
    sweep_hit = None
    sweep_base = None
    r = -1
    while True:
        r += 1
        if r >= n:
            if not sweep_queue:
                break
            stopat = sweep_queue.pop(0)
            st = Tape(values=sweep_base)
        else:
            st = (Tape(values=sched_values[r]) if sched_values is not None
                  else Tape((seed, "w2sched", r)))
        pt = Tape(values=ptape.used()) if r else ptape
        spec = GraphSpec(pt, big=tier == "thorough")
        if r == 0:
            rendered = spec.render()
            digests.append(rendered)
        if r < n:
            sched_tapes.append(st)
        sim = Sim(st)
        early = bool(st.draw(2, "w2_early"))
        capacity = (100, 1, 2, 3)[st.draw(4, "w2_cap")]
        close_after = st.weighted((3, 3, 2, 1, 1), "w2_close_after")
        r_eff = r if r < n else 0  # sweep runs repeat schedule 0 (and replay as schedule 0)
        if spec.itemfail_motif and r_eff % 2 == 0:
            # the motif needs early execution and room in the queue; half of its schedules get both
            early = True
            capacity = 100
            close_after = max(close_after, 2)
        if spec.nestclose_motif and r_eff % 2 == 1:
            # the producer completes the items itself and the consumer closes mid-stream
            early = False
            close_after = 1 + st.draw(2, "w2_n_close")
        world = World2(sim, spec, early, capacity)
        ctx = CancelCtx(world)
        out = {"waiting": None, "payloads": 0, "closed": False, "ended": False, "error": None}
        ann_labels = set()

        close_delay = bool(st.draw(2, "w2_close_delay"))
        close_fut = None
        if len(stopat) >= 2 and stopat[0] == 2:
            close_after = 999
            close_delay = False
            bump(stats, "probes", "w2_stop_instant_sweep_runs")
            if stopat[1] > 0:
                close_fut = sim.loop.create_future()
                sim.action("closegate", lambda f=close_fut: f.done() or f.set_result(None),
                           not_before=stopat[1])

        async def main(world=world, ctx=ctx, out=out, close_after=close_after, sim=sim,
                       spec=spec, ann_labels=ann_labels, close_delay=close_delay,
                       close_fut=close_fut):
            work = world.build(spec.initial)
            ctx.initial_computations = list(world.computations)
            ctx.initial_queues = list(world.queues)
            res = IncrementalPublisher().build_response(initial_data(spec), None, work, ctx)
            it = res.subsequent_results
            for pe_ in res.initial_result.formatted.get("pending") or ():
                ann_labels.add(pe_.get("label"))
            k = 0
            while True:
                if k == close_after or (close_fut is not None and close_fut.done()):
                    if close_delay:
                        out["waiting"] = "gate"
                        await sim.external("gate:close", "gate", ("value", None)).fut
                    out["waiting"] = "aclose"
                    try:
                        await it.aclose()
                    except Exception as e:  # noqa: BLE001
                        out["error"] = e
                    out["waiting"] = None
                    out["closed"] = True
                    return
                out["waiting"] = "gate"
                gate = sim.external(f"gate:pull#{k}", "gate", ("value", None)).fut
                if close_fut is not None:
                    # the same pending set as the base run; whichever comes first
                    await asyncio.wait({gate, close_fut}, return_when=asyncio.FIRST_COMPLETED)
                    if close_fut.done():
                        continue
                else:
                    await gate
                out["waiting"] = "anext"
                try:
                    pl_ = await it.__anext__()
                    for pe_ in pl_.formatted.get("pending") or ():
                        ann_labels.add(pe_.get("label"))
                except StopAsyncIteration:
                    out["waiting"] = None
                    out["ended"] = True
                    return
                except Exception as e:  # noqa: BLE001
                    out["waiting"] = None
                    out["error"] = e
                    return
                out["waiting"] = None
                out["payloads"] += 1
                k += 1

        status = sim.run(main())
        bump(stats, "counts", "w2_runs")
        if close_after == 999:
            close_after = out["payloads"] if out["closed"] else 999
        if stats is not None:
            stats["polls"] = stats.get("polls", 0) + sim.poll
            stats["externals"] = stats.get("externals", 0) + len(sim.externals)
            stats["fires"] = stats.get("fires", 0) + sim.fire_count
            bump(stats, "modes", sim.mode)
            bump(stats, "probes", "w2_closed_before_first_pull",
                 1 if out["closed"] and close_after == 0 else 0)
            bump(stats, "probes", "w2_closed_mid_stream",
                 1 if out["closed"] and close_after > 0 else 0)
            bump(stats, "probes", "w2_cancelled_externals",
                 sum(1 for e in sim.externals if e.state == "cancelled"))
            bump(stats, "faults", "stop:w2_aclose", 1 if out["closed"] else 0)
            bump(stats, "faults", "w2_stream_failed_by_item",
                 sum(1 for s_ in spec.all_streams if s_.fail_by_item and s_.queue is not None))
            bump(stats, "probes", "w2_items_pushed_behind_failing_item", world.pushed_behind_failure)
            bump(stats, "probes", "w2_slow_item_cancellations", world.slow_cancels)
            bump(stats, "probes", "w2_cancelled_producers_aborting_nested_work",
                 world.nested_aborts_by_producer)
            bump(stats, "probes", "w2_hanging_items_cancelled",
                 sum(1 for e in sim.externals if e.hanging and e.state == "cancelled"))
        vs = []
        fp = {"world": "W2", "early": early, "closed_before_first_pull": close_after == 0}
        if status == "stepcap":
            vs.append(Violation(prop, "livelock", {"world": "W2"}, {"polls": sim.poll}))
        elif out["waiting"] is not None:
            vs.append(Violation(prop, "hang", dict(fp, blocked=out["waiting"]), {}))
        else:
            if out["error"] is not None:
                vs.append(Violation(prop, "bad_outcome", dict(fp, type=type(out["error"]).__name__),
                                    {"error": repr(out["error"])}))
            left = [t for t in sim.unfinished_tasks() if t.get_name() != "main"]
            if left:
                qn = getattr(left[0].get_coro(), "__qualname__", "?")
                # was the stream whose producer leaked ever known to the scheduler?
                announced = "?"
                provenance = "?"
                for ss in spec.all_streams:
                    q = ss.queue
                    if q is not None and getattr(q, "_producer_task", None) is left[0]:
                        announced = ss.label in ann_labels
                        provenance = _provenance(spec, world, ss)
                vs.append(Violation(prop, "orphan_task", dict(fp, coroutine=qn,
                                                              site=await_site(left[0]),
                                                              provenance=provenance,
                                                              stream_announced=announced),
                                    {"tasks": [getattr(t.get_coro(), "__qualname__", "?")
                                               for t in left][:6]}))
            # the abort callback (closing the source) runs at most once, and exactly once for a
            # source that was in use and did not finish by itself
            if out["ended"] or out["closed"]:
                for ss in spec.all_streams:
                    if ss.abort_calls > 1:
                        vs.append(Violation(prop, "source_closed_twice", dict(fp, source="w2"),
                                            {"stream": ss.label, "calls": ss.abort_calls}))
                        break
                    if ss.abort_calls and ss.slow_close and not ss.close_started:
                        vs.append(Violation(prop, "source_not_closed", dict(
                            fp, source="w2", what="closing_never_started",
                            stream_announced=ss.label in ann_labels,
                            provenance=_provenance(spec, world, ss)), {"stream": ss.label}))
                        break
                    if ss.started and not ss.finished and ss.abort_calls == 0:
                        vs.append(Violation(prop, "source_not_closed", dict(
                            fp, source="w2", stream_announced=ss.label in ann_labels,
                            provenance=_provenance(spec, world, ss)), {"stream": ss.label}))
                        break
            # with early execution everything primed is tracked; without it only started work runs
            pend = [e.label for e in sim.externals if e.kind != "gate" and e.is_pending()]
            if pend and (out["closed"] and close_after > 0 or out["ended"]) and not left:
                vs.append(Violation(prop, "work_not_cancelled", fp, {"externals": pend[:5]}))
            if ctx.closing_at_hook:
                own = {f"sclose:{ss.sid}" for ss in spec.all_streams if ss.self_failed}
                vs.append(Violation(prop, "hook_early", dict(
                    fp, unsettled="source_being_closed", tracked_background_pending=False,
                    closing_after_own_failure=all(x in own for x in ctx.closing_at_hook)),
                    {"closing": ctx.closing_at_hook}))
            expect_hook = 1 if (out["ended"] or (out["closed"] and close_after > 0)) else None
            if expect_hook is not None and ctx.hook_calls != 1:
                vs.append(Violation(prop, "hook_count", dict(fp, count=min(ctx.hook_calls, 2)), {}))
            if out["closed"] and close_after == 0 and ctx.hook_calls != 1:
                vs.append(Violation(prop, "hook_count",
                                    dict(fp, count=min(ctx.hook_calls, 2)), {"note": "close before first pull"}))
        for v in vs:
            v.detail["sched_index"] = r
            v.detail["knobs"] = {"early": early, "capacity": capacity, "close_after": close_after}
            v.detail["decisions"] = sim.decision_trace[:40]
        violations += vs
        sd = sim.digest()
        digests.append(sd)
        digests.append([out["payloads"], out["closed"], out["ended"], ctx.hook_calls])
        info["pairs"].append(pair_hash(mix(repr(rendered)), sd))
        if info["sample"] is None:
            info["sample"] = {"world": "W2-cancel", "graph": rendered,
                              "knobs": {"early": early, "capacity": capacity,
                                        "close_after": close_after},
                              "outcome": dict(out, error=repr(out["error"])),
                              "hook_calls": ctx.hook_calls}
        polls = sim.poll
        sim.close()
        if r >= n:
            if vs:
                # found by the sweep: the replay is the base schedule plus the stop instant
                for v in vs:
                    v.fingerprint["sweep"] = True
                    v.detail["stopat"] = list(stopat)
                sched_tapes = [st]
                sweep_hit = list(stopat)
                break
            if stopat[1] == 0:
                # the base run (never closed): every iteration of it is a stop instant
                tmax = min(polls, 40 if tier == "quick" else 80)
                sweep_queue = [[2, t] for t in range(1, tmax + 1)]
            elif not sweep_queue:
                bump(stats, "probes", "w2_stop_instant_sweeps_completed")
        elif (r == n - 1 and unit is None and not violations and sched_tapes
              and seed is not None and (seed[2] // 8) % 3 == 0):
            sweep_base = sched_tapes[0].used()
            sweep_queue = [[2, 0]]
    info["unit"] = {"world": "W2", "plan": ptape.used(), "scheds": [t.used() for t in sched_tapes]}
    if sweep_hit or (unit is not None and unit.get("stopat")):
        info["unit"]["stopat"] = sweep_hit or list(unit["stopat"])
    info["digest"] = digest_of(digests)
    info["render"] = {"graph": rendered}
    return violations, info
