"""Shared helpers for the property checks."""
from __future__ import annotations

import hashlib

from sim.tape import mix

REAL = [
    "graphql.execution (executor, collect_fields, values, execute, async_iterables, "
    "incremental/*) from /repo/src",
    "graphql.pyutils (abort_signal, gather_with_cancel, async_reduce, RefMap/RefSet)",
    "graphql parser, build_schema, validate",
    "asyncio Task/Future/gather/wait/Queue/Event and BaseEventLoop._run_once (stock, FIFO ready queue)",
]
STUB = [
    "selector (no I/O; select() is the scheduler's decision point)",
    "clock (logical: one tick per loop iteration)",
    "resolvers, type resolvers, list/stream/subscription sources, consumers (harness)",
    "allocator address choice for FieldDetails objects (SimAllocator seam)",
]


def pair_hash(scn_digest, sim_digest):
    return mix(scn_digest, sim_digest) & ((1 << 60) - 1)


def digest_of(parts):
    h = hashlib.blake2b(digest_size=12)
    for p in parts:
        h.update(repr(p).encode())
        h.update(b"|")
    return h.hexdigest()


def base_evidence(prop, tier, seed, wall, violations, evaluations, distinct, rule, samples,
                  stats, extra=None, assumptions=None):
    cov = {
        "evaluations": int(evaluations),
        "distinct_nontrivial": int(distinct),
        "rule": rule,
        "samples": samples or [{"note": "no sample captured"}],
        "simulated_ticks": int(stats.get("polls", 0)),
        "externals_created": int(stats.get("externals", 0)),
        "external_completions_fired": int(stats.get("fires", 0)),
        "scheduler_policies": stats.get("modes", {}),
        "externals_per_run_histogram": {str(k): v for k, v in sorted(
            stats.get("ext_hist", {}).items(), key=lambda kv: int(kv[0]))},
        "faults_injected": stats.get("faults", {}),
        "reach_probes": stats.get("probes", {}),
        "rejected_documents": int(stats.get("rejected", 0)),
        "components_real": REAL,
        "components_stubbed": STUB,
    }
    zero = [k for k, v in cov["reach_probes"].items() if not v]
    cov["reach_probes_at_zero"] = zero
    if extra:
        cov.update(extra)
    return {
        "property_id": prop,
        "tier": tier,
        "seed": int(seed),
        "level": "exploration",
        "coverage": cov,
        "assumptions": assumptions or [],
        "wall_s": round(wall, 2),
        "violations": int(violations),
    }


def bump(stats, group, key, n=1):
    if stats is None:
        return
    g = stats.setdefault(group, {})
    g[key] = g.get(key, 0) + n


def await_site(task):
    """Where a pending task is suspended: function names along its await chain (no line numbers)."""
    names = []
    obj = task.get_coro()
    for _ in range(12):
        if obj is None:
            break
        code = getattr(obj, "cr_code", None) or getattr(obj, "ag_code", None) or getattr(obj, "gi_code", None)
        if code is None:
            break
        names.append(code.co_name)
        obj = (getattr(obj, "cr_await", None) or getattr(obj, "ag_await", None)
               or getattr(obj, "gi_yieldfrom", None))
    return ">".join(names[-3:])
