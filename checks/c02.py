"""C02 — execution equals the spec algorithm, whatever came before (DESIGN §4-C02).

Simulation target: the *history* quantifier.  One unit is a server lifetime:
one schema object, a cache of parsed documents, and a tape-drawn sequence of
operations on them (executions through several entry points, re-executions,
other variables / operation names, validate / introspection / print_schema
interleaved, allocator-policy churn).  Resolvers are synchronous.
"""
from __future__ import annotations

import asyncio

from graphql import (
    execute,
    execute_sync,
    extend_schema,
    lexicographic_sort_schema,
    get_introspection_query,
    graphql_sync,
    parse,
    print_ast,
    print_schema,
    validate,
)

from sim import alloc
from sim.harness import Request, attach
from sim.model import Model
from sim.oracle import Violation, check_invocations, check_response, exact_equal
from sim.plan import PlanConfig, Planner
from sim.scenario import TYPE_MODES, World
from sim.tape import Tape, mix
from sim.world import Data, DocGen, SchemaSpec, build_world_schema

from .common import base_evidence, bump, digest_of

PROP = "C02"
ENTRIES = ("execute_sync", "execute", "graphql_sync", "execute_sync_check")
INTROSPECTION = None


class Doc:
    def __init__(self, gen, text, ast):
        self.gen = gen
        self.text = text
        self.ast = ast


class Req:
    """A request = (document, operation, variables, plan); re-executable."""

    def __init__(self, doc, opname, variables, planner, model, result, root, schema=None):
        self.schema = schema
        self.doc = doc
        self.opname = opname
        self.variables = variables
        self.planner = planner
        self.model = model
        self.result = result
        self.root = root
        self.first_response = None


def run_unit(seed=None, unit=None, tier="quick", stats=None):
    # object deaths feed the simulated allocator: the collector must not run at a random moment
    import gc

    was = gc.isenabled()
    gc.disable()
    try:
        return _run_unit(seed, unit, tier, stats)
    finally:
        if was:
            gc.enable()


def _run_unit(seed=None, unit=None, tier="quick", stats=None):
    global INTROSPECTION
    if INTROSPECTION is None:
        INTROSPECTION = parse(get_introspection_query())
    tape = Tape(values=unit["plan"]) if unit is not None else Tape((seed, "history"))
    big = tier == "thorough"
    spec = SchemaSpec(tape, False)
    schema = build_world_schema(spec)
    type_mode = TYPE_MODES[tape.weighted((3, 2, 2), "type_mode")]
    attach(schema, type_mode)
    data = Data(tape.draw(1 << 16, "salt"))
    world = World(schema, spec, data, type_mode)
    info = {"pairs": [], "digest": None, "sample": None, "render": None}
    violations = []
    docs = []
    ndocs = 1 + tape.draw(4 if not big else 6, "ndocs")
    for _ in range(ndocs):
        gen = DocGen(tape, spec, max_depth=5 if big else 4, budget=40 if big else 24)
        gen.operation(("query", "mutation")[tape.weighted((3, 1), "kind")])
        if tape.draw(3, "two_ops") == 2:
            gen.operation(("query", "mutation")[tape.weighted((3, 1), "kind2")])
        text = gen.document()
        ast = parse(text)
        if validate(schema, ast):
            bump(stats, "counts", "rejected")
            continue
        docs.append(Doc(gen, text, ast))
    if not docs:
        info["unit"] = {"plan": tape.used()}
        info["digest"] = "rejected"
        return [], info
    sdl_before = print_schema(schema)
    # schemas derived from the first one during the history (extend_schema,
    # lexicographic_sort_schema): new objects that share argument / input-field default objects
    # with their origin, so requests on one are history for the other
    schemas = [schema]
    sdls = [sdl_before]
    docs_before = [print_ast(d.ast) for d in docs]
    requests = []
    nops = 4 + tape.draw(9 if not big else 27, "nops")
    trace = []
    digests = []
    al = alloc.SimAllocator("fresh", tape)
    alloc.activate(al)
    try:
        for step in range(nops):
            kind = tape.weighted((6, 3, 3, 1, 1, 1, 1, 1), "opkind")
            # 0 new request, 1 repeat earlier, 2 earlier doc/op with other variables,
            # 3 validate, 4 introspection, 5 print_schema, 6 allocator churn, 7 derive a schema
            if kind in (1, 2) and not requests:
                kind = 0
            if kind == 7 and len(schemas) >= 3:
                kind = 0
            if kind == 7:
                origin = schemas[tape.draw(len(schemas), "derive_from")]
                how = tape.draw(3, "derive_how")
                try:
                    if how == 2:
                        derived = lexicographic_sort_schema(origin)
                    else:
                        n = len(schemas)
                        derived = extend_schema(origin, parse(
                            f"extend input Filter {{ x{n}: Int = {40 + n}, y{n}: [Int!] = 7 }} "
                            f"extend type Query {{ q{n}: Int }}" if how == 0 else
                            f"extend input Filter {{ x{n}: Int = {40 + n} }}"))
                    attach(derived, type_mode, reset_shared=False)
                except Exception as e:  # noqa: BLE001
                    violations.append(Violation(PROP, "escaped_exception",
                                                {"type": type(e).__name__, "entry": "derive"},
                                                {"step": step, "error": repr(e)}))
                    continue
                schemas.append(derived)
                sdls.append(print_schema(derived))
                trace.append(["derive", ("extend2", "extend1", "sort")[how]])
                bump(stats, "probes", "op_derive_schema_" + ("extend", "extend", "sort")[how])
                continue
            if kind == 3:
                d = docs[tape.draw(len(docs), "vdoc")]
                errs = validate(schema, d.ast)
                trace.append(["validate", docs.index(d)])
                if errs:
                    violations.append(Violation(PROP, "history_changed_validation", {},
                                                {"step": step, "errors": [e.message for e in errs]}))
                bump(stats, "probes", "op_validate")
                continue
            if kind == 4:
                res = execute_sync(schema, INTROSPECTION)
                trace.append(["introspection"])
                if res.errors:
                    violations.append(Violation(PROP, "introspection_failed", {},
                                                {"step": step, "errors": [e.message for e in res.errors]}))
                bump(stats, "probes", "op_introspection")
                continue
            if kind == 5:
                if print_schema(schema) != sdl_before:
                    violations.append(Violation(PROP, "schema_mutated", {"when": "mid"}, {"step": step}))
                trace.append(["print_schema"])
                bump(stats, "probes", "op_print_schema")
                continue
            if kind == 6:
                al.policy = ("fresh", "lifo", "random")[tape.draw(3, "alloc")]
                trace.append(["alloc", al.policy])
                continue
            repeat = False
            if kind == 1:
                rq = requests[tape.draw(len(requests), "rep")]
                repeat = True
                bump(stats, "probes", "op_repeat")
            else:
                if kind == 2:
                    base = requests[tape.draw(len(requests), "base")]
                    d = base.doc
                    opname = base.opname
                    if len(d.gen.ops) > 1 and tape.draw(2, "otherop"):
                        opname = d.gen.ops[tape.draw(len(d.gen.ops), "opi")][0]
                        bump(stats, "probes", "op_other_operation_name")
                    variables = d.gen.redraw_variables(opname)
                    bump(stats, "probes", "op_other_variables")
                else:
                    d = docs[tape.draw(len(docs), "doc")]
                    opname = d.gen.ops[tape.draw(len(d.gen.ops), "opi")][0]
                    variables = d.gen.variables_for(opname)
                cfg = PlanConfig(tape, allow_async=False)
                planner = Planner(tape, cfg)
                on = schemas[tape.draw(len(schemas), "on_schema")] if len(schemas) > 1 else schema
                if on is not schema:
                    bump(stats, "probes", "request_on_derived_schema")
                model = Model(on, d.ast, data, planner, type_mode)
                root = {"__oid": (len(requests) + 1) * 7919, "__t": "Root", "__path": ()}
                result = model.execute(opname, variables, root)
                rq = Req(d, opname, variables, planner, model, result, root, schema=on)
                requests.append(rq)
                for k, n in planner.fault_kinds.items():
                    bump(stats, "faults", k, n)
            entry = ENTRIES[tape.draw(len(ENTRIES), "entry")]
            req = Request(None, requests.index(rq), world, rq.planner, force_sync=True, root=rq.root)
            opn = rq.opname if (len(rq.doc.gen.ops) > 1 or tape.draw(2, "passname")) else None
            on = rq.schema
            try:
                if entry == "execute_sync":
                    res = execute_sync(on, rq.doc.ast, rq.root, req, rq.variables, opn)
                elif entry == "execute_sync_check":
                    res = execute_sync(on, rq.doc.ast, rq.root, req, rq.variables, opn,
                                       check_sync=True)
                elif entry == "execute":
                    res = execute(on, rq.doc.ast, rq.root, req, rq.variables, opn)
                    if asyncio.iscoroutine(res):
                        res.close()
                        raise RuntimeError("execute() returned a coroutine for synchronous resolvers")
                else:
                    res = graphql_sync(on, rq.doc.text, rq.root, req, rq.variables, opn)
                formatted = res.formatted
            except Exception as e:  # noqa: BLE001
                violations.append(Violation(PROP, "escaped_exception",
                                            {"type": type(e).__name__, "entry": entry},
                                            {"step": step, "error": repr(e)}))
                continue
            bump(stats, "counts", "operations")
            bump(stats, "entries", entry)
            trace.append(["exec", requests.index(rq), entry, "repeat" if repeat else "new",
                          schemas.index(on)])
            vs = check_response(PROP, formatted, rq.result, who=entry)
            vs += check_invocations(PROP, req, rq.result, formatted.get("data"), who=entry)
            if rq.first_response is None:
                rq.first_response = formatted
            elif not exact_equal(_strip_locations(formatted), _strip_locations(rq.first_response)):
                vs.append(Violation(PROP, "repeat_differs", {"entry": entry},
                                    {"first": rq.first_response, "again": formatted}))
            for v in vs:
                if on is not schema:
                    v.fingerprint["derived_schema"] = True
                v.fingerprint["op_index"] = "first" if step == 0 else "later"
                v.fingerprint["seen_before"] = repeat
                v.detail["step"] = step
                v.detail["trace"] = trace[-8:]
            violations += vs
            digests.append(formatted)
            if al.reuses:
                bump(stats, "probes", "operations_after_address_reuse")
    finally:
        alloc.deactivate()
    for sch, sdl in zip(schemas, sdls):
        if print_schema(sch) != sdl:
            violations.append(Violation(PROP, "schema_mutated", {"when": "end"},
                                        {"schema": schemas.index(sch)}))
    if [print_ast(d.ast) for d in docs] != docs_before:
        violations.append(Violation(PROP, "document_mutated", {}, {}))
    bump(stats, "probes", "address_reuse_injected", al.reuses)
    bump(stats, "counts", "histories")
    bump(stats, "hist_len", min(len(trace), 40))
    info["unit"] = {"plan": tape.used()}
    info["digest"] = digest_of(digests + [trace])
    if len([t for t in trace if t[0] == "exec"]) >= 2:
        info["pairs"].append(mix(info["digest"]) & ((1 << 60) - 1))
    info["render"] = {
        "sdl": spec.sdl(), "type_mode": type_mode,
        "documents": [d.text for d in docs],
        "requests": [{"doc": docs.index(r.doc), "operation": r.opname, "variables": r.variables,
                      "plan": r.planner.render()} for r in requests],
        "history": trace,
    }
    info["sample"] = {"documents": [d.text for d in docs][:2], "history": trace[:12],
                      "first_request": {"operation": requests[0].opname,
                                        "variables": requests[0].variables,
                                        "plan": requests[0].planner.render()[:8],
                                        "response": requests[0].first_response}
                      if requests else None}
    return violations, info


def _strip_locations(formatted):
    return formatted


def evidence(stats, units, distinct, samples, tier, seed, wall, violations):
    c = stats.get("counts", {})
    stats = dict(stats)
    stats["rejected"] = c.get("rejected", 0)
    return base_evidence(
        PROP, tier, seed, wall, violations, c.get("operations", 0), distinct,
        "unit = one server-lifetime history on one schema object and a cache of parsed documents: "
        "4-12 (thorough: up to 30) operations drawn from {new request, repeat earlier request, "
        "earlier document with other variables / operation name, validate, introspection, "
        "print_schema, allocator-policy switch}, each execution through execute_sync / execute / "
        "graphql_sync with synchronous harness resolvers and injected synchronous faults; an "
        "evaluation is one executed operation compared with the reference model (data incl. key "
        "order, attributable errors, nulled positions, argument dicts, at-most-once invocation, "
        "equality with the first response of a repeated request); a case is distinct by the digest "
        "of (responses, history) and non-trivial when the history has >= 2 executions. "
        "The inputs quantifier is only sampled by this generator.",
        samples, stats,
        extra={"histories": c.get("histories", 0), "entry_points": stats.get("entries", {}),
               "history_length_histogram": stats.get("hist_len", {})},
        assumptions=[
            "reference model (sim/model.py) implements the spec's execution and input-coercion algorithms "
            "for the value domain the generator emits",
            "parser, build_schema and validate are trusted",
        ],
    )
