"""C06 on the subscription response stream: the consumer closes it after k responses.

Reuses the subscription world of C07 (sources in four shapes, per-event plans) and judges,
at quiescence: the close returns, no task of the execution is left, whatever the event
in flight was waiting for has been cancelled, the source is closed exactly once.
"""
from __future__ import annotations

from graphql import ExecutionResult, parse, subscribe, validate
from graphql.execution import ExecutionHooks
from graphql.execution.executor_throwing_on_incremental import ExecutorThrowingOnIncremental
from graphql.pyutils import AbortController, is_awaitable

from sim import alloc
from sim.harness import attach, make_exc
from sim.loop import Sim
from sim.model import Model
from sim.oracle import Violation
from sim.plan import PlanConfig, Planner
from sim.scenario import TYPE_MODES, World
from sim.tape import Tape, mix
from sim.world import Data, DocGen, SchemaSpec, build_world_schema

from .c07 import Dispatcher, SourcePlan, SourceState, make_source
from .common import await_site, bump, digest_of, pair_hash
from .incremental import REACHED_AWAIT

PROP = "C06"


def run_unit(seed=None, unit=None, tier="quick", stats=None, prop=PROP):
    n_sched = 3 if tier == "quick" else 6
    if unit is not None:
        ptape = Tape(values=unit["plan"])
        sched_values = unit["scheds"]
    else:
        ptape = Tape((seed, "subplan"))
        sched_values = None
    info = {"pairs": [], "digest": None, "sample": None, "render": None}
    spec = SchemaSpec(ptape, False)
    schema = build_world_schema(spec)
    type_mode = TYPE_MODES[ptape.weighted((3, 2, 2), "type_mode")]
    attach(schema, type_mode)
    data = Data(ptape.draw(1 << 16, "salt"))
    world = World(schema, spec, data, type_mode)
    gen = DocGen(ptape, spec, max_depth=3, budget=12)
    # one document in three carries a second operation: the subscription is then selected by
    # its operation name only
    extra = ptape.draw(3, "extra_op")
    if extra == 1:
        gen.operation("query")
    opname = gen.operation("subscription")
    if extra == 2:
        gen.operation("query")
    text = gen.document()
    doc = parse(text)
    if validate(schema, doc):
        bump(stats, "counts", "rejected")
        info["unit"] = {"world": "SUB", "plan": ptape.used(), "scheds": []}
        info["digest"] = "rejected"
        return [], info
    variables = gen.variables_for(opname)
    sp = SourcePlan(ptape)
    sp.create_fault = None
    sp.n_events = max(sp.n_events, 2)
    sp.gated_emit = tuple(sp.gated_emit) + (True,) * 4
    events = [{"__oid": mix(data.salt, "ev", j) % 1000003, "__t": "Subscription", "__path": (),
               "__ev": j} for j in range(sp.n_events)]
    cfg = PlanConfig(ptape)
    planners = []
    for j in range(sp.produced()):
        pl = Planner(ptape, cfg)
        Model(schema, doc, data, pl, type_mode).execute(opname, variables, events[j])
        planners.append(pl)
    violations = []
    digests = [text, sp.render(), [p.render() for p in planners]]
    sched_tapes = []
    n = n_sched if sched_values is None else len(sched_values)
    for r in range(n):
        st = (Tape(values=sched_values[r]) if sched_values is not None
              else Tape((seed, "subsched", r)))
        sched_tapes.append(st)
        sim = Sim(st)
        close_after = st.weighted((3, 3, 2, 1), "sub_close_after")
        freeze = bool(st.draw(2, "sub_freeze"))
        close_delay = bool(st.draw(2, "sub_close_delay"))
        # an abort signal that is passed but never triggered: its waiters must not outlive the stream
        idle_signal = st.draw(3, "sub_idle_signal") == 0
        sub_kwargs = {"abort_signal": AbortController().signal} if idle_signal else {}
        bump(stats, "knobs", "sub_abort_signal_passed_never_triggered", 1 if idle_signal else 0)
        # closing while a response is being computed is the interesting instant: the consumer
        # waits for response k in a task of its own and closes the stream from outside
        al = alloc.SimAllocator("fresh", st)
        disp = Dispatcher(sim, world, events, planners, sp.none_event)
        sst = SourceState()
        src_exc = make_exc(sp.exc, "SRC", ())
        out = {"kind": None, "responses": 0, "waiting": None, "closed": False, "error": None,
               "frozen": 0}

        def sub_resolver(root, info_, **args):
            return make_source(sim, sp, events, src_exc, sst)

        holder = {"executor": None}
        hook_log = []  # (event index or None, pending tracked type checks of that event)

        def hook(info_):
            root = getattr(info_.executor, "root_value", None)
            j = root.get("__ev") if isinstance(root, dict) else (
                sp.none_event if root is None else None)
            tracked = [e.label for e in sim.externals
                       if e.kind == "ito" and e.owner == j and e.is_pending()
                       and bool(getattr(e.fut, "_callbacks", None))]
            hook_log.append((j, tracked[:3]))

        class Recording(ExecutorThrowingOnIncremental):
            """The stock subscription executor; only remembers the instance for probes."""

            def __init__(self, *a, **k):
                super().__init__(*a, **k)
                if holder["executor"] is None:
                    holder["executor"] = self

        class _RR:
            executor = None

        async def main():
            try:
                res = subscribe(schema, doc, {"__oid": 1, "__t": "Root", "__path": ()}, disp,
                                variables, opname, subscribe_field_resolver=sub_resolver,
                                executor_class=Recording,
                                hooks=ExecutionHooks(async_work_finished=hook), **sub_kwargs)
                if is_awaitable(res):
                    res = await res
            except Exception as e:  # noqa: BLE001
                out["kind"] = "raised"
                out["error"] = e
                return
            if isinstance(res, ExecutionResult):
                out["kind"] = "result"
                return
            out["kind"] = "stream"
            k = 0
            while True:
                if k == close_after:
                    if close_delay:
                        out["waiting"] = "gate"
                        await sim.external("close", "gate", ("value", None)).fut
                        out["waiting"] = None
                    if freeze:
                        for e in sim.externals:
                            if e.kind in ("res", "anext", "rt", "emit") and e.is_pending():
                                e.hanging = True
                                out["frozen"] += 1
                    out["waiting"] = "aclose"
                    try:
                        await res.aclose()
                    except Exception as e:  # noqa: BLE001
                        out["error"] = e
                    out["waiting"] = None
                    out["closed"] = True
                    return
                out["waiting"] = "gate"
                await sim.external(f"pull#{k}", "gate", ("value", None)).fut
                out["waiting"] = "anext"
                try:
                    await res.__anext__()
                except StopAsyncIteration:
                    out["waiting"] = None
                    return
                except Exception as e:  # noqa: BLE001
                    out["waiting"] = None
                    if e is not src_exc:
                        out["error"] = e
                    return
                out["waiting"] = None
                out["responses"] += 1
                k += 1

        REACHED_AWAIT.clear()
        alloc.activate(al)
        try:
            status = sim.run(main())
        finally:
            alloc.deactivate()
        # by-design background work (settled, never cancelled) is allowed to finish
        from .c06 import _awaited_by_background

        _RR.executor = holder["executor"]
        for _round in range(6):
            released = 0
            for e in sim.externals:
                if e.hanging and e.is_pending() and e.kind != "emit":
                    if _awaited_by_background(e, None, _RR) is True:
                        e.hanging = False
                        released += 1
            if not released or status != "idle":
                break
            status = sim.resume()
        bump(stats, "counts", "sub_runs")
        if stats is not None:
            stats["polls"] = stats.get("polls", 0) + sim.poll
            stats["externals"] = stats.get("externals", 0) + len(sim.externals)
            stats["fires"] = stats.get("fires", 0) + sim.fire_count
            bump(stats, "modes", sim.mode)
            bump(stats, "faults", "stop:subscription_aclose", 1 if out["closed"] else 0)
            bump(stats, "probes", "sub_closed_before_first_pull",
                 1 if out["closed"] and close_after == 0 else 0)
            bump(stats, "probes", "sub_externals_frozen_at_close", out["frozen"])
            bump(stats, "probes", "sub_event_hooks_fired", len(hook_log))
        vs = []
        fp = {"world": "SUB", "shape": sp.shape, "closed_before_first_pull": close_after == 0}
        if status == "stepcap":
            vs.append(Violation(prop, "livelock", {"world": "SUB"}, {"polls": sim.poll}))
        elif out["waiting"] is not None and out["waiting"] != "gate":
            # (a gate never opened means a frozen emission: the harness's own doing)
            vs.append(Violation(prop, "hang", dict(fp, blocked=out["waiting"]), {}))
        elif out["kind"] == "stream" and out["waiting"] is None:
            if out["error"] is not None:
                vs.append(Violation(prop, "bad_outcome", dict(fp, type=type(out["error"]).__name__),
                                    {"error": repr(out["error"])}))
            # the work-finished hook of an event: once per response, and not while a type
            # check of that event which the executor tracks (awaits in the background) is pending
            early = [(j, tr) for j, tr in hook_log if tr]
            if early:
                vs.append(Violation(prop, "hook_early", dict(
                    fp, unsettled="tracked_type_check", tracked_background_pending=True),
                    {"event": early[0][0], "pending": early[0][1]}))
            per_event = {}
            for j, _tr in hook_log:
                per_event[j] = per_event.get(j, 0) + 1
            twice = sorted(j for j, n_ in per_event.items() if n_ > 1 and j is not None)
            if twice:
                vs.append(Violation(prop, "hook_count", dict(fp, count=2),
                                    {"events": twice[:4]}))
            missing = [j for j in range(out["responses"]) if per_event.get(j, 0) == 0]
            if missing:
                vs.append(Violation(prop, "hook_count", dict(fp, count=0),
                                    {"events": missing[:4]}))
            left = [t for t in sim.unfinished_tasks()
                    if t.get_name() not in ("main", "pump")]
            if left:
                qn = getattr(left[0].get_coro(), "__qualname__", "?")
                vs.append(Violation(prop, "orphan_task",
                                    dict(fp, coroutine=qn, site=await_site(left[0])),
                                    {"tasks": [getattr(t.get_coro(), "__qualname__", "?")
                                               for t in left][:5]}))
            if out["closed"]:
                still = [e for e in sim.externals
                         if e.hanging and e.is_pending() and e.kind != "emit"]
                if still:
                    vs.append(Violation(prop, "hanging_external_not_cancelled", dict(
                        fp, kind=still[0].kind,
                        still_awaited=any(bool(getattr(e.fut, "_callbacks", None)) for e in still),
                        reached_await=any(id(e.fut) in REACHED_AWAIT for e in still)),
                        {"externals": [e.label for e in still][:5]}))
                if sst.started and sp.shape != "class_noclose":
                    done_by_itself = sst.ended or sst.failed
                    if sp.shape == "agen":
                        if not sst.finalized:
                            vs.append(Violation(prop, "source_not_closed",
                                                dict(fp, source="agen"), {"pulls": sst.pulls}))
                    elif sst.aclose_calls > 1:
                        vs.append(Violation(prop, "source_closed_twice", dict(fp, source=sp.shape),
                                            {"calls": sst.aclose_calls}))
                    elif sst.aclose_calls == 0 and not done_by_itself:
                        vs.append(Violation(prop, "source_not_closed", dict(fp, source=sp.shape),
                                            {"pulls": sst.pulls}))
        for v in vs:
            v.detail["sched_index"] = r
            v.detail["source"] = sp.render()
            v.detail["close_after"] = close_after
            v.detail["decisions"] = sim.decision_trace[:40]
        violations += vs
        sd = sim.digest()
        digests.append(sd)
        digests.append([out["kind"], out["responses"], out["closed"], repr(out["error"])])
        info["pairs"].append(pair_hash(mix(repr(digests[0:3])), sd))
        if info["sample"] is None:
            info["sample"] = {"world": "SUB", "document": text, "source": sp.render(),
                              "close_after": close_after, "freeze": freeze,
                              "outcome": dict(out, error=repr(out["error"]))}
        sim.close()
    info["unit"] = {"world": "SUB", "plan": ptape.used(), "scheds": [t.used() for t in sched_tapes]}
    info["digest"] = digest_of(digests)
    info["render"] = {"sdl": spec.sdl(), "document": text, "variables": variables,
                      "source": sp.render(), "plans": [p.render() for p in planners]}
    return violations, info
