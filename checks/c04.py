"""C04 — incremental delivery reassembles to the non-incremental response (DESIGN §4-C04)."""
from __future__ import annotations

from sim.incremental import check_assembled
from sim.oracle import Violation, check_invocations, check_response
from sim.scenario import build_scenario
from sim.tape import Tape

from . import microworld
from .common import base_evidence, bump, digest_of, pair_hash
from .incremental import run_incremental

PROP = "C04"


def account(stats, sim, knobs, al, results):
    if stats is None:
        return
    stats["polls"] = stats.get("polls", 0) + sim.poll
    stats["externals"] = stats.get("externals", 0) + len(sim.externals)
    stats["fires"] = stats.get("fires", 0) + sim.fire_count
    bump(stats, "modes", sim.mode)
    bump(stats, "ext_hist", min(len(sim.externals), 40))
    bump(stats, "knobs", f"early={knobs.early}")
    bump(stats, "knobs", f"capacity={knobs.capacity}")
    bump(stats, "knobs", f"pull={knobs.pull}")
    bump(stats, "probes", "address_reuse_injected", al.reuses)
    bump(stats, "probes", "cancelled_externals",
         sum(1 for e in sim.externals if e.state == "cancelled"))
    bump(stats, "probes", "asyncgen_finalizer_hits", len(sim.loop.finalizer_hits))
    for rr in results:
        bump(stats, "result_kinds", str(rr.kind))
        queues = getattr(rr.executor, "_stream_item_queues", None)
        if queues:
            # stream queues exist although the response is a plain result: they were created by
            # work that failed, was filtered out or is settled in the background
            bump(stats, "probes", "plain_result_with_stream_queues", 1 if rr.kind == "single" else 0)
            bump(stats, "probes", "stream_queue_created_after_final_cleanup", sum(
                1 for q in queues if rr.cleanup_poll is not None
                and getattr(q, "_verif_created_poll", -1) >= rr.cleanup_poll))
        if rr.monitor is not None:
            for f in rr.monitor.features:
                bump(stats, "probes", f)
            bump(stats, "probes", "payloads", rr.monitor.n_payloads)
            bump(stats, "probes", "nesting_rule_checked", rr.monitor.nesting_checked)
            bump(stats, "probes", "nesting_rule_skipped_ambiguous", rr.monitor.nesting_skipped)
            bump(stats, "payload_hist", min(rr.monitor.n_payloads, 20))


def run_unit(seed=None, unit=None, tier="quick", stats=None):
    if unit is not None:
        world = unit.get("world", "W1")
    else:
        world = "W2" if seed[2] % 3 == 2 else "W1"
    if world == "W2":
        return microworld.run_unit(seed=seed, unit=unit, tier=tier, stats=stats, prop=PROP)
    n_sched = 3 if tier == "quick" else 6
    if unit is not None:
        ptape = Tape(values=unit["plan"])
        sched_values = unit["scheds"]
    else:
        ptape = Tape((seed, "plan"))
        sched_values = None
    big = tier == "thorough"
    scn = build_scenario(ptape, incremental=True, max_requests=2, want_r0=True,
                         max_depth=5 if big else 4, budget=36 if big else 24)
    info = {"pairs": [], "digest": None, "sample": None, "render": None}
    if not scn.requests:
        bump(stats, "counts", "rejected")
        info["unit"] = {"plan": ptape.used(), "scheds": []}
        info["digest"] = "rejected"
        return [], info
    for rs in scn.requests:
        for k, n in rs.planner.fault_kinds.items():
            bump(stats, "faults", k, n)
        for f in rs.gen.features:
            bump(stats, "doc_features", f)
    violations = []
    digests = [scn.digest()]
    sched_tapes = []
    n = n_sched if sched_values is None else len(sched_values)
    for r in range(n):
        st = (Tape(values=sched_values[r]) if sched_values is not None
              else Tape((seed, "sched", r)))
        sched_tapes.append(st)
        sim, reqs, results, status, knobs, al, _stops = run_incremental(scn, st, lenient=True)
        bump(stats, "counts", "execs", len(reqs))
        account(stats, sim, knobs, al, results)
        vs = []
        if status == "stepcap":
            vs.append(Violation(PROP, "livelock", {}, {"polls": sim.poll}))
        for i, rs in enumerate(scn.requests):
            rr = results[i]
            if rr.kind == "raised" or (rr.error is not None and rr.kind != "incremental"):
                vs.append(Violation(PROP, "escaped_exception",
                                    {"type": type(rr.error).__name__}, {"error": repr(rr.error)}))
                continue
            if rr.kind is None:
                bump(stats, "probes", "initial_result_never_arrived")
                continue
            if rr.kind == "single":
                vs += check_response(PROP, rr.single, rs.result, ordered=True, who="single")
                vs += check_invocations(PROP, reqs[i], rs.result, rr.single.get("data"),
                                        who="single")
                continue
            if rr.error is not None:
                vs.append(Violation(PROP, "escaped_exception",
                                    {"type": type(rr.error).__name__, "where": "subsequent"},
                                    {"error": repr(rr.error)}))
                continue
            if rr.monitor.protocol_errors:
                # protocol violations are C05's business; the assembly goes on without them
                bump(stats, "probes", "runs_with_protocol_errors_tolerated")
            if not rr.ended:
                vs.append(Violation(PROP, "assembled_mismatch",
                                    {"clause": "stream_never_ended", "early": knobs.early},
                                    {"waiting": rr.waiting,
                                     "pending": list(rr.monitor.pending.values())}))
                continue
            vs += check_assembled(PROP, rr.monitor, rs, knobs.early)
            iv = check_invocations(PROP, reqs[i], rs.result0, None, who="incremental",
                                   exact_present=False)
            vs += iv
        for v in vs:
            v.detail["sched_index"] = r
            v.detail["knobs"] = knobs.render()
            v.detail["decisions"] = sim.decision_trace[:60]
            v.detail["payloads"] = [rr.payloads for rr in results][:2]
        violations += vs
        sd = sim.digest()
        digests.append(sd)
        digests.append([rr.payloads for rr in results])
        if len(sim.externals) >= 2 or any(rs.planner.nfault for rs in scn.requests):
            info["pairs"].append(pair_hash(digests[0], sd))
        if info["sample"] is None and any(rr.kind == "incremental" for rr in results):
            j = next(j for j, rr in enumerate(results) if rr.kind == "incremental")
            info["sample"] = {
                "document": scn.requests[j].text, "variables": scn.requests[j].variables,
                "plan": scn.requests[j].planner.render()[:12], "knobs": knobs.render(),
                "scheduler": sim.mode,
                "decision_trace": [[p, f] for p, f in sim.decision_trace[:12]],
                "payloads": results[j].payloads[:6],
                "assembled": results[j].monitor.data,
            }
        sim.close()
    info["unit"] = {"world": "W1", "plan": ptape.used(), "scheds": [t.used() for t in sched_tapes]}
    info["digest"] = digest_of(digests)
    info["render"] = scn.render()
    return violations, info


def evidence(stats, units, distinct, samples, tier, seed, wall, violations):
    c = stats.get("counts", {})
    stats = dict(stats)
    stats["rejected"] = c.get("rejected", 0)
    return base_evidence(
        PROP, tier, seed, wall, violations, c.get("execs", 0) + c.get("w2_runs", 0), distinct,
        "two of three units: one generated scenario with @defer/@stream (nested, labelled/unlabelled, if:false / "
        "if:$var, overlapping with plain selections, fragments spread deferred and plain, stream over "
        "lists, generators and async iterators) executed through experimental_execute_incrementally "
        "on SimLoop under several seeded schedules x {early execution on/off} x queue capacity "
        "{1,2,3,100} x consumer pull policy {eager, gated, lazy}; payloads are merged by an "
        "independent merge function and compared with the reference model run with directives "
        "ignored (exact when error-free or non-propagating, refinement otherwise); distinct by "
        "(scenario digest, event-log digest); non-trivial = >= 2 externals or >= 1 injected fault. "
        "Every third unit is a W2 work graph (checks/microworld.py) driven through the real "
        "WorkQueue/IncrementalPublisher/StreamItemQueue, checked for conservation: every value of a "
        "deliverable fragment arrives exactly once at its path, nothing of a failed fragment arrives, "
        "fragments/streams are reported failed iff they failed",
        samples, stats,
        extra={"units": units, "w2_runs": c.get("w2_runs", 0),
               "w2_graph_shapes": stats.get("w2_shapes", {}), "knobs": stats.get("knobs", {}),
               "result_kinds": stats.get("result_kinds", {}),
               "document_features": stats.get("doc_features", {}),
               "payloads_per_run_histogram": stats.get("payload_hist", {})},
        assumptions=[
            "reference model (sim/model.py) = execution with directives disabled",
            "merge function (sim/incremental.py) implements the incremental response format",
            "a streamed list whose source iterator fails is treated as a propagating error "
            "(tail withheld, id completed with errors); see DESIGN.md §8.3",
        ],
    )
